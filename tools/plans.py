"""Per-property verification plans (which models, generators and drivers decide a property)."""
import json, os
from vcheck import *


def n_of(ctx, quick, thorough):
    return quick if ctx.quick else thorough


def plan_C01(ctx):
    e1_freq_norm_stream(ctx)
    e1_build_algo(ctx)
    e2_build_algo(ctx)
    e1_int_coder(ctx)
    e1_chunking(ctx)
    e1_loc_stream(ctx)
    e2_loc_stream(ctx, n_of(ctx, 40, 600))
    run_family(ctx, "build_obs", n_of(ctx, 300, 6000), perfile=n_of(ctx, 20, 40))
    run_family(ctx, "build_big", n_of(ctx, 14, 168), perfile=1)          # sizes and cardinalities on the chunking constants
    run_family(ctx, "many_fields", n_of(ctx, 8, 120), perfile=2, seed_off=2)
    run_family(ctx, "extremes", n_of(ctx, 3, 36), perfile=1)                    # long names/terms, hundreds of terms and locations
    run_family(ctx, "huge", n_of(ctx, 2, 8), perfile=1)                          # document numbers beyond 16 bits
    run_family(ctx, "giant_posting", n_of(ctx, 1, 6), perfile=1)                 # > 65535 locations in one posting
    if not ctx.quick:
        run_family(ctx, "field_limit", 2, perfile=1)                            # 65535 fields: the 16-bit field id limit
    run_family(ctx, "match", n_of(ctx, 40, 400), perfile=20, seed_off=5)          # lookups of absent terms after DocsMatchingTerms (shared empty objects)
    run_family(ctx, "reuse", n_of(ctx, 60, 800), perfile=20, seed_off=6)          # absent terms looked up with recycled lists
    run_family(ctx, "iter_walk", n_of(ctx, 60, 800), perfile=20, seed_off=7)      # every flag combination with Advance, exclusions and ReplaceActual on built segments
    run_family(ctx, "bitmap_edges", n_of(ctx, 3, 12), perfile=1)                   # a field twice per document (occurrences != documents), exact bitmap sizes
    canary(ctx)


def e1_postings_iter(ctx):
    """E1: the iterator design refines Level A for every call sequence; each named deviation is caught."""
    tlc_mc(ctx, "PostingsIter", "MC_PostingsIter_%s.cfg" % ("quick" if ctx.quick else "thorough"))
    for dev in (("StrictReach",) if ctx.quick else ("StrictReach", "NoSameChunkReset", "SkipIgnoresLocs", "OneHitLeq", "ReachOnlyLoaded", "FarSeekLoadedChunk", "AdvancePastKeepsOneHit")):
        tlc_mc(ctx, "PostingsIter", "MC_PostingsIter_dev_%s.cfg" % dev, workers=4, expect_violation="AllInv")


def e2_postings_iter(ctx, num):
    """E2: behaviours of the model (random configuration, random Next/Advance walk) replayed on real lists."""
    import lift
    behs = tlc_emit(ctx, "PostingsIter", "Gen_PostingsIter.cfg", os.path.join(ctx.work, "beh-iter.json"),
                    extra=["-simulate", "num=%d" % num, "-depth", "30", "-seed", str(ctx.seed)])
    behs = lift.dedupe(behs)
    scs = [lift.lift_iter(b, i) for i, b in enumerate(behs)]
    run_scenarios(ctx, scs, "e2iter", perfile=60)


def e1_fst_cache(ctx):
    tlc_mc(ctx, "FstCache", "MC_FstCache.cfg", workers=8)
    tlc_mc(ctx, "FstCache", "MC_FstCache_dev_LeakLock.cfg", workers=4, expect_violation="MutexMatchesCS")
    tlc_mc(ctx, "FstCache", "MC_FstCache_dev_UnlockedHit.cfg", workers=4, expect_violation="LocksetDiscipline")


def e2_fst_cache(ctx, num):
    import lift
    behs = tlc_emit(ctx, "FstCache", "Gen_FstCache.cfg", os.path.join(ctx.work, "beh-fst.json"),
                    extra=["-simulate", "num=%d" % num, "-depth", "80", "-seed", str(ctx.seed)])
    behs = lift.dedupe(behs)[:num]
    run_scenarios(ctx, [lift.lift_fst(b, i) for i, b in enumerate(behs)], "e2fst", perfile=8, shards=16)


def e1_stored_read(ctx):
    tlc_mc(ctx, "StoredRead", "MC_StoredRead_%s.cfg" % ("quick" if ctx.quick else "thorough"))
    tlc_mc(ctx, "StoredRead", "MC_StoredRead_dev_SharedCache.cfg", workers=4, expect_violation="Correct")
    tlc_mc(ctx, "StoredRead", "MC_StoredRead_dev_LookAhead.cfg", workers=4, expect_violation="Correct")
    if not ctx.quick:
        tlc_mc(ctx, "StoredRead", "MC_StoredRead_dev_PutEarly.cfg", workers=4, expect_violation="Correct")


def e2_stored_read(ctx, num):
    import lift
    behs = tlc_emit(ctx, "StoredRead", "Gen_StoredRead.cfg", os.path.join(ctx.work, "beh-stored.json"),
                    extra=["-simulate", "num=%d" % num, "-depth", "150", "-seed", str(ctx.seed)])
    behs = lift.dedupe(behs)[:num]
    run_scenarios(ctx, [lift.lift_stored(b, i) for i, b in enumerate(behs)], "e2stored", perfile=8, shards=16)


def tier(ctx):
    return "quick" if ctx.quick else "thorough"


def devs(ctx, module, names, inv, workers=4):
    """sensitivity runs: each named deviation of a Level-I model must violate (quick: the first one only)"""
    for d in (names[:1] if ctx.quick else names):
        tlc_mc(ctx, module, "MC_%s_dev_%s.cfg" % (module, d), workers=workers, expect_violation=inv)


def e1_build_algo(ctx):
    tlc_mc(ctx, "BuildAlgo", "MC_BuildAlgo.cfg", workers=4)
    devs(ctx, "BuildAlgo", ["LaterInstanceFieldName", "FreqFromLocs", "FreqAssign", "NoFieldSort"], "AllRefine")


def e2_build_algo(ctx):
    import lift
    behs = lift.dedupe(tlc_emit(ctx, "BuildAlgo", "Gen_BuildAlgo.cfg", os.path.join(ctx.work, "beh-build.json")))
    by_norm = {}
    for i, bh in enumerate(behs):
        by_norm.setdefault(i % 2, []).append(lift.lift_build(bh, i))
    for k, scs in by_norm.items():        # one trace file shares one norm function
        run_scenarios(ctx, scs, "e2build%d" % k, perfile=4)


def e1_chunking(ctx):
    tlc_mc(ctx, "Chunking", "MC_Chunking.cfg")
    tlc_mc(ctx, "Chunking", "MC_Chunking_dev_WriterMaxDocMinus1.cfg", workers=4, expect_violation="BuilderAgrees")
    tlc_mc(ctx, "Chunking", "MC_Chunking_dev_MergerPreDeleteCard.cfg", workers=4, expect_violation="MergerAgrees")


def e1_enumerator(ctx):
    tlc_mc(ctx, "Enumerator", "MC_Enumerator.cfg", workers=4)
    tlc_mc(ctx, "Enumerator", "MC_Enumerator_dev_AlwaysSkipEmpty.cfg", workers=4, expect_violation="Complete")
    if not ctx.quick:
        tlc_mc(ctx, "Enumerator", "MC_Enumerator_dev_NeverSkipEmpty.cfg", workers=4, expect_violation="Complete")


def e1_int_coder(ctx):
    tlc_mc(ctx, "IntCoder", "MC_IntCoder.cfg")
    tlc_mc(ctx, "IntCoder", "MC_IntCoder_dev_ResetKeepsLens.cfg", workers=4, expect_violation="ChunksRight")
    if not ctx.quick:
        tlc_mc(ctx, "IntCoder", "MC_IntCoder_dev_NoFinalClose.cfg", workers=4, expect_violation="ChunksRight")


def e1_loc_stream(ctx):
    """E1: writer's size prefix and reader's framing of the location stream agree for every read/skip pattern."""
    tlc_mc(ctx, "LocStream", "MC_LocStream.cfg")
    devs(ctx, "LocStream", ["SizeOfIdPlusOne", "SizeWithoutEnd", "PrefixCountsRecords"], "AllInv")


def e2_loc_stream(ctx, num):
    """E2: random LocStream configurations on the real builder, merger and iterator (131-field segments)."""
    import lift
    behs = tlc_emit(ctx, "LocStream", "Gen_LocStream.cfg", os.path.join(ctx.work, "beh-loc.json"),
                    extra=["-simulate", "num=%d" % (2 * num), "-depth", "8", "-seed", str(ctx.seed)])
    behs = lift.dedupe(behs)[:num]
    run_scenarios(ctx, [lift.lift_locstream(b, i) for i, b in enumerate(behs)], "e2loc", perfile=10, shards=4)


def e1_merge_term_loop(ctx):
    """E1: the per-field term loop of the merger (prevTerm nil/empty, prepareNewTerm, finishTerm, last*, 1-hit)."""
    tlc_mc(ctx, "MergeTermLoop", "MC_MergeTermLoop.cfg")
    if not ctx.quick:
        tlc_mc(ctx, "MergeTermLoop", "MC_MergeTermLoop_3seg.cfg")
        tlc_mc(ctx, "MergeTermLoop", "MC_MergeTermLoop_3terms.cfg")
        tlc_mc(ctx, "MergeTermLoop", "MC_MergeTermLoop_thorough.cfg")
    devs(ctx, "MergeTermLoop", ["FoldedCondition", "OneHitLeq", "CardCountsDropped"], "AllRight", workers=8)


def e1_ctx_reader(ctx):
    """E1: the scratch context's meta reader across visits (early stops, documents without stored values)."""
    tlc_mc(ctx, "CtxReader", "MC_CtxReader.cfg", workers=4)
    devs(ctx, "CtxReader", ["ResetOnlyNonEmptyMeta", "NoResetAfterFullRead"], "OwnValues")


def e2_ctx_reader(ctx, num):
    import lift
    behs = tlc_emit(ctx, "CtxReader", "Gen_CtxReader.cfg", os.path.join(ctx.work, "beh-ctx.json"),
                    extra=["-simulate", "num=%d" % num, "-depth", "10", "-seed", str(ctx.seed)])
    behs = lift.dedupe(behs)[:num]
    run_scenarios(ctx, [lift.lift_ctxreader(b, i) for i, b in enumerate(behs)], "e2ctx", perfile=20, shards=4,
                  env_extra={"VERIF_INLINE": "1"})


def e2_merge_term_loop(ctx, num):
    """E2: random MergeTermLoop configurations (empty term, deletions, 1-hit candidates) on the real merger."""
    import lift
    behs = tlc_emit(ctx, "MergeTermLoop", "Gen_MergeTermLoop.cfg", os.path.join(ctx.work, "beh-termloop.json"),
                    extra=["-simulate", "num=%d" % (2 * num), "-depth", "16", "-seed", str(ctx.seed)])
    behs = lift.dedupe(behs)[:num]
    run_scenarios(ctx, [lift.lift_termloop(b, i) for i, b in enumerate(behs)], "e2termloop", perfile=10, shards=4)


def e1_dv_merge(ctx):
    """E1: the merger's per-field focus lists (tables aligned with the segments that have the field) and the doc-value pass."""
    tlc_mc(ctx, "DvMerge", "MC_DvMerge.cfg" if ctx.quick else "MC_DvMerge_thorough.cfg", workers=16)
    devs(ctx, "DvMerge", ["UnfilteredTable", "MergedFieldId", "NoDropCheck", "SectionOfLastSegment"], "AllRight", workers=4)


def e2_dv_merge(ctx, num):
    """E2: random DvMerge configurations (field lists in either order, fields without terms, flags, deletions) on the real merger."""
    import lift
    behs = tlc_emit(ctx, "DvMerge", "Gen_DvMerge.cfg", os.path.join(ctx.work, "beh-dvmerge.json"),
                    extra=["-simulate", "num=%d" % (2 * num), "-depth", "24", "-seed", str(ctx.seed)])
    behs = lift.dedupe(behs)[:num]
    run_scenarios(ctx, [lift.lift_dvmerge(b, i) for i, b in enumerate(behs)], "e2dvmerge", perfile=10, shards=4)


def e1_freq_norm_stream(ctx):
    """E1: the freq/norm stream at byte level (uvarints incl. payload-free first bytes), every read/skip pattern."""
    tlc_mc(ctx, "FreqNormStream", "MC_FreqNormStream.cfg", workers=8)
    devs(ctx, "FreqNormStream", ["PeekFirstByte", "SkipOneByteNorm", "HasLocsFromFreq"], "AllInv")


def e1_merge_reads(ctx):
    """E1: a merge as a sequence of storage reads with a transient or permanent fault at every position, twice on one input."""
    tlc_mc(ctx, "MergeReads", "MC_MergeReads.cfg", workers=4)
    devs(ctx, "MergeReads", ["DropFirstNextErr", "SwallowDvErr", "CacheFailedDict"], "AllInv")


def e1_dv_reader(ctx):
    """E1: multi-field doc-value reader on storage failing inside a call (every read of a load, permanent or transient)."""
    tlc_mc(ctx, "DvReader", "MC_DvReader.cfg", workers=8)
    devs(ctx, "DvReader", ["HeaderBeforeInvalidate", "SharedLoadDecision"], "AllInv")


def e1_load_layout(ctx):
    tlc_mc(ctx, "LoadLayout", "MC_LoadLayout.cfg", workers=4)
    tlc_mc(ctx, "LoadLayout", "MC_LoadLayout_dev_FieldsLookAhead.cfg", workers=4, expect_violation="LookAheadInsideData")


def e1_stored_codec(ctx):
    tlc_mc(ctx, "StoredCodec", "MC_StoredCodec.cfg", workers=4)
    tlc_mc(ctx, "StoredCodec", "MC_StoredCodec_dev_NoFinalFlush.cfg", workers=4, expect_violation="TableShape")
    tlc_mc(ctx, "StoredCodec", "MC_StoredCodec_dev_ReaderOther.cfg", workers=4, expect_violation="MergedReadsBack")
    if not ctx.quick:
        tlc_mc(ctx, "StoredCodec", "MC_StoredCodec_dev_EarlyFlush.cfg", workers=4, expect_violation="MergedReadsBack")
        tlc_mc(ctx, "StoredCodec", "MC_StoredCodec_dev_HoistedBlockStart.cfg", workers=4, expect_violation="MergedReadsBack")


def e1_merge_algo(ctx):
    tlc_mc(ctx, "MergeAlgo", "MC_MergeAlgo_%s.cfg" % tier(ctx))
    devs(ctx, "MergeAlgo", ["CopyPathIgnoresDrops", "FreqFromCard", "OneHitAnyFreq", "SamePrefixOnly"], "AllRefine")


def e2_merge_algo(ctx):
    """E2: every configuration the MergeAlgo model was checked on (catalogue pairs x all deletion sets) is
    executed on the real merger, followed by the identity merge of the result (C17)."""
    import lift
    behs = tlc_emit(ctx, "MergeAlgo", "Gen_MergeAlgo.cfg", os.path.join(ctx.work, "beh-merge.json"))
    behs = lift.dedupe(behs)
    if ctx.quick:
        behs = behs[ctx.seed % 3::3]
    run_scenarios(ctx, [lift.lift_merge(b, i) for i, b in enumerate(behs)], "e2merge", perfile=16, shards=4)


def e1_gen_api(ctx):
    tlc_mc(ctx, "GenAPI", "MC_GenAPI.cfg" if ctx.quick else "MC_GenAPI_thorough.cfg")
    tlc_mc(ctx, "GenAPI", "MC_GenAPI_dev_MergeTouchesBitmap.cfg", workers=4, expect_violation="BitmapsImmutable")
    tlc_mc(ctx, "GenAPI", "MC_GenAPI_dev_SharedEmptyStats.cfg", workers=8, expect_violation="StatsIndependent")
    if not ctx.quick:
        tlc_mc(ctx, "GenAPI", "MC_GenAPI_dev_DvOpenEditsList.cfg", workers=4, expect_violation="FieldListsImmutable")
        tlc_mc(ctx, "GenAPI", "MC_GenAPI_dev_CloseKillsEmptyIts.cfg", workers=8, expect_violation="DitsIndependent")


def e2_gen_api(ctx, num):
    """E2: random API histories of the generative Level-A machine, a digest after every step"""
    import lift
    # many more histories are simulated than executed: a third of the executed ones are drawn from those that
    # contain a merge with a caller-owned bitmap (rare in a uniform random walk), so that no seed runs without them
    behs = tlc_emit(ctx, "GenAPI", "Gen_GenAPI.cfg", os.path.join(ctx.work, "beh-api.json"),
                    extra=["-simulate", "num=%d" % max(5 * num, 400), "-depth", "20", "-seed", str(ctx.seed)])
    # (one simulated trace yields all its one-step variants; tlc_emit shuffles them)
    behs = lift.dedupe(behs)
    rare = [b for b in behs if any(h["op"] == "merge" and any(h["drops"]) for h in b["hist"])]
    rare2 = [b for b in behs if any(h["op"] == "stats_add" for h in b["hist"])]
    rare3 = [b for b in behs if any(h["op"] == "dit_close" for h in b["hist"]) and sum(1 for h in b["hist"] if h["op"] == "dit_open") >= 2]
    rare4 = [b for b in behs if sum(1 for h in b["hist"] if h["op"] == "dv_open") >= 2]
    pick = rare[:max(num // 3, 4)] + rare2[:max(num // 6, 4)] + rare3[:max(num // 8, 3)] + rare4[:max(num // 8, 3)]
    keys = set(json.dumps(b, sort_keys=True) for b in pick)
    behs = pick + [b for b in behs if json.dumps(b, sort_keys=True) not in keys][:num - len(pick)]
    run_scenarios(ctx, [lift.lift_api(b, i) for i, b in enumerate(behs)], "e2api", perfile=10, shards=4)


def e1_algebra(ctx):
    tlc_mc(ctx, "IceAlgebra", "MC_IceAlgebra_%s.cfg" % tier(ctx))


def e1_dv(ctx):
    tlc_mc(ctx, "DvCodec", "MC_DvCodec.cfg")
    devs(ctx, "DvCodec", ["IncrementChunk", "NoInvalidate", "NoChunkCheck", "EarlyFlushOverwritesLen"], "Delivered")


def e1_reuse(ctx):
    tlc_mc(ctx, "Reuse", "MC_Reuse.cfg")
    tlc_mc(ctx, "Reuse", "MC_Reuse_dev_StaleOneHit.cfg", workers=4, expect_violation="CountRight")
    tlc_mc(ctx, "Reuse", "MC_Reuse_dev_DrainPrealloc.cfg", workers=4, expect_violation="FirstRight")
    if not ctx.quick:
        tlc_mc(ctx, "Reuse", "MC_Reuse_dev_NilOnlyEmptyCheck.cfg", workers=4, expect_violation="IterRight")
        tlc_mc(ctx, "Reuse", "MC_Reuse_dev_InitKeepsOneHit.cfg", workers=4, expect_violation="CountRight")
        tlc_mc(ctx, "Reuse", "MC_Reuse_dev_EmptyShortcutIgnoresOneHit.cfg", workers=4, expect_violation="IterRight")
        tlc_mc(ctx, "Reuse", "MC_Reuse_dev_RecycleSharedEmpty.cfg", workers=4, expect_violation="SharedStaysEmpty")


def e1_writer_crc(ctx):
    tlc_mc(ctx, "WriterCRC", "MC_WriterCRC.cfg", workers=4)
    tlc_mc(ctx, "WriterCRC", "MC_WriterCRC_dev_SeedFromFooter.cfg", workers=4, expect_violation="CrcCoversFile")


def e1_writer_faults(ctx):
    tlc_mc(ctx, "WriterFaults", "MC_WriterFaults.cfg", workers=4)
    tlc_mc(ctx, "WriterFaults", "MC_WriterFaults_dev_DropFlushErr.cfg", workers=4, expect_violation="NoSilentSuccess")
    tlc_mc(ctx, "WriterFaults", "MC_WriterFaults_dev_PollAfterDataNil.cfg", workers=4, expect_violation="NoSilentSuccess")
    tlc_mc(ctx, "WriterFaults", "MC_WriterFaults_dev_SkipFlushWhenFull.cfg", workers=4, expect_violation="NoSilentSuccess")
    tlc_mc(ctx, "WriterFaults", "MC_WriterFaults_dev_OverwriteErr.cfg", workers=4, expect_violation="NoSilentSuccess")
    tlc_mc(ctx, "WriterFaults", "MC_WriterFaults_dev_ErrOnlyIfShort.cfg", workers=4, expect_violation="FailingWriterReported")
    tlc_mc(ctx, "WriterFaults", "MC_WriterFaults_dev_PollReturnsStaleErr.cfg", workers=4, expect_violation="NoSilentSuccess")


def e1_builder_pool(ctx):
    tlc_mc(ctx, "BuilderPool", "MC_BuilderPool.cfg")
    devs(ctx, "BuilderPool", ["NoDvReset", "NoPostingsClear", "NoCountersReset", "PutOnFailure"], "HistoryIndependent")


def e1_match_loop(ctx):
    tlc_mc(ctx, "MatchLoop", "MC_MatchLoop.cfg", workers=4)
    tlc_mc(ctx, "MatchLoop", "MC_MatchLoop_dev_NoNilCheck.cfg", workers=4, expect_violation="NoCrash")
    tlc_mc(ctx, "MatchLoop", "MC_MatchLoop_dev_RememberOnlyResolved.cfg", workers=4, expect_violation="ExactUnion")
    tlc_mc(ctx, "MatchLoop", "MC_MatchLoop_dev_OverCountSkip.cfg", workers=4, expect_violation="ExactUnion")


def plan_C05(ctx):
    e1_freq_norm_stream(ctx)
    e1_postings_iter(ctx)
    e1_chunking(ctx)
    e2_postings_iter(ctx, n_of(ctx, 400, 6000))
    e1_loc_stream(ctx)
    e2_loc_stream(ctx, n_of(ctx, 40, 600))
    run_family(ctx, "iter_walk", n_of(ctx, 300, 5000), perfile=50)
    run_family(ctx, "reuse_pairs", n_of(ctx, 324, 972), perfile=54, seed_off=3)
    run_family(ctx, "iter_big", n_of(ctx, 12, 150), perfile=n_of(ctx, 2, 5))
    run_family(ctx, "build_big", n_of(ctx, 14, 168), perfile=1, seed_off=5)
    run_family(ctx, "iter_share", n_of(ctx, 120, 2500), perfile=n_of(ctx, 20, 40))   # several iterations alive at once, Close, prealloc hand-over
    run_family(ctx, "adv_boundary", n_of(ctx, 15, 60), perfile=3)                    # from the last posting of a chunk far into the next one
    run_family(ctx, "huge", n_of(ctx, 4, 16), perfile=1, seed_off=3)
    run_family(ctx, "card_boundary", n_of(ctx, 6, 24), perfile=1, seed_off=1)
    run_family(ctx, "giant_posting", n_of(ctx, 1, 6), perfile=1, seed_off=1)
    require_cov(ctx, "tag:onehit", "tag:multichunk", "tag:excluded", "tag:advance", "tag:replace", "onehit_iter")
    canary(ctx)


def plan_tmp(ctx):
    import os
    if os.environ.get("E2"):
        globals()[os.environ["E2"]](ctx, int(os.environ.get("N", "50")))
        return
    fams = os.environ.get("FAMS", "iter_walk").split(",")
    n = int(os.environ.get("N", "100"))
    for f in fams:
        run_family(ctx, f, n, perfile=int(os.environ.get("PF", "10")))


def plan_C02(ctx):
    if not ctx.quick:
        e1_dv_merge(ctx)                      # (quick tier: checked by C07)
        run_family(ctx, "midsize", 5, perfile=1, seed_off=1)
    e2_dv_merge(ctx, n_of(ctx, 40, 600))
    e2_merge_algo(ctx)
    e1_enumerator(ctx)
    e1_merge_algo(ctx)
    e1_merge_term_loop(ctx)
    e2_merge_term_loop(ctx, n_of(ctx, 40, 600))
    e1_chunking(ctx)

    e1_loc_stream(ctx)
    e2_loc_stream(ctx, n_of(ctx, 40, 600))
    run_family(ctx, "merge_obs", n_of(ctx, 250, 5000), perfile=n_of(ctx, 20, 40))
    run_family(ctx, "twin_merge", n_of(ctx, 40, 800), perfile=10, seed_off=7)
    run_family(ctx, "many_fields", n_of(ctx, 10, 100), perfile=2, seed_off=8)
    run_family(ctx, "stored_sweep", n_of(ctx, 40, 80), perfile=5, seed_off=1)      # merges read stored fields too
    run_family(ctx, "iter_big", n_of(ctx, 8, 100), perfile=2, seed_off=2)          # cardinality across 1024 by drops
    run_family(ctx, "extremes", n_of(ctx, 3, 36), perfile=1, seed_off=3)
    run_family(ctx, "merge_chain", n_of(ctx, 30, 600), perfile=10)                # zero-document inputs, fields known to one input only
    run_family(ctx, "mass_delete", n_of(ctx, 5, 60), perfile=1)                   # thousands of deletions
    run_family(ctx, "card_boundary", n_of(ctx, 6, 24), perfile=1)                 # cardinalities on the chunk-size steps, 1-hit inputs
    run_family(ctx, "huge", n_of(ctx, 2, 8), perfile=1, seed_off=1)
    run_family(ctx, "fault_then_merge", n_of(ctx, 20, 300), perfile=10, seed_off=2)
    run_family(ctx, "reuse", n_of(ctx, 60, 800), perfile=20, seed_off=7)          # merged (1-hit) lists recycled for absent terms
    canary(ctx)


def plan_C03(ctx):
    e1_merge_algo(ctx)
    e1_merge_reads(ctx)
    run_family(ctx, "merge_obs", n_of(ctx, 250, 5000), perfile=n_of(ctx, 20, 40), seed_off=3)
    run_family(ctx, "assoc", n_of(ctx, 40, 600), perfile=10, seed_off=4)
    run_family(ctx, "mass_delete", n_of(ctx, 5, 60), perfile=1, seed_off=2)
    run_family(ctx, "fault_merge", n_of(ctx, 64, 256), perfile=16)               # one read of a file-backed input fails while the merge runs
    run_family(ctx, "merge_chain", n_of(ctx, 20, 300), perfile=10, seed_off=2)
    run_family(ctx, "card_boundary", n_of(ctx, 6, 24), perfile=1, seed_off=4)      # live cardinality on a chunk-size step, deleted 1-hit inputs
    run_family(ctx, "dv_walk", n_of(ctx, 8, 100), perfile=2, seed_off=5)           # a >1024-document input with doc-value chunk gaps as the SECOND input
    run_family(ctx, "many_fields", n_of(ctx, 6, 60), perfile=2, seed_off=6)        # locations naming other fields whose ids sit on both sides of 128
    run_family(ctx, "big_stored", n_of(ctx, 2, 9), perfile=1, seed_off=3)          # megabytes pending inside one re-encoded stored block
    canary(ctx)



def plan_C04(ctx):
    e1_load_layout(ctx)
    e1_stored_codec(ctx)
    e1_writer_crc(ctx)
    run_family(ctx, "roundtrip", n_of(ctx, 150, 3000), perfile=n_of(ctx, 10, 30))
    run_family(ctx, "roundtrip_big", n_of(ctx, 22, 110), perfile=2)
    run_family(ctx, "merge_obs", n_of(ctx, 120, 2500), perfile=20, seed_off=5)
    run_family(ctx, "extremes", n_of(ctx, 3, 36), perfile=1, seed_off=4)
    run_family(ctx, "merge_chain", n_of(ctx, 20, 300), perfile=10, seed_off=3)
    run_family(ctx, "huge", n_of(ctx, 2, 8), perfile=1, seed_off=2)
    run_family(ctx, "field_limit", n_of(ctx, 1, 4), perfile=1, seed_off=1)     # 65535 fields: the 16-bit field id limit
    run_family(ctx, "conc_write", n_of(ctx, 16, 240), perfile=4)               # writers side by side (one-byte merge buffers, slow destinations)
    run_family(ctx, "card_boundary", n_of(ctx, 6, 24), perfile=1, seed_off=3)
    run_family(ctx, "big_stored", n_of(ctx, 2, 12), perfile=1)                      # megabytes of stored values inside one 128-document block
    run_family(ctx, "aligned", n_of(ctx, 4, 16), perfile=2, seed_off=1)             # data section an exact multiple of 1 MiB / 64 KiB / 2 MiB
    run_family(ctx, "fault_load", n_of(ctx, 10, 200), perfile=10, seed_off=2)       # a Load that met a transient read failure and still succeeded
    run_family(ctx, "many_fields", n_of(ctx, 6, 60), perfile=2, seed_off=7)         # merged files whose location prefixes depend on field ids 127/128
    run_family(ctx, "big_dict_merge", n_of(ctx, 3, 30), perfile=1, seed_off=1)
    run_family(ctx, "midsize", n_of(ctx, 1, 6), perfile=1)                          # 200-900 documents, 20-60 fields, long terms, large frequencies, 5-60 KB values, 3-6 inputs
    canary(ctx)


def plan_C06(ctx):
    e1_stored_codec(ctx)
    e1_stored_read(ctx)
    e2_stored_read(ctx, n_of(ctx, 32, 400))
    e1_ctx_reader(ctx)
    e2_ctx_reader(ctx, n_of(ctx, 40, 600))
    run_family(ctx, "stored_shapes", n_of(ctx, 200, 4000), perfile=n_of(ctx, 20, 40))
    run_family(ctx, "stored_sweep", n_of(ctx, 80, 400), perfile=5)
    run_family(ctx, "extremes", n_of(ctx, 3, 36), perfile=1, seed_off=5)         # stored values of tens of kilobytes
    run_family(ctx, "big_stored", n_of(ctx, 3, 12), perfile=1, seed_off=1)          # runs, incompressible values, one block beyond 64 MiB
    run_family(ctx, "fault_merge", n_of(ctx, 32, 128), perfile=16, seed_off=2, env_extra={"VERIF_INLINE": "1"})   # overlapping visits after an abandoned merge (same goroutine: same pool)
    run_family(ctx, "copy_boundary", n_of(ctx, 6, 60), perfile=2)                 # output blocks ending inside a copied source block
    run_family(ctx, "huge", n_of(ctx, 2, 8), perfile=1, seed_off=4)
    run_family(ctx, "block_drop", n_of(ctx, 16, 112), perfile=4)                 # deletions on the first/last slot of a stored block, all at once vs stepwise
    canary(ctx)


def plan_C07(ctx):
    e1_dv_merge(ctx)
    e2_dv_merge(ctx, n_of(ctx, 40, 600))
    e1_dv_reader(ctx)
    e1_dv(ctx)
    run_family(ctx, "dv_small", n_of(ctx, 200, 4000), perfile=n_of(ctx, 20, 40))
    run_family(ctx, "dv_walk", n_of(ctx, 24, 300), perfile=2)
    run_family(ctx, "big_dv", n_of(ctx, 2, 8), perfile=1)                           # one doc-value chunk beyond 16 MiB
    run_family(ctx, "fault_load", n_of(ctx, 20, 300), perfile=10)                   # every read of Load as a transient failure point
    run_family(ctx, "huge", n_of(ctx, 2, 8), perfile=1, seed_off=3)                 # doc values of documents beyond 16 384 / 65 536
    run_family(ctx, "dv_merge_order", n_of(ctx, 8, 80), perfile=2, seed_off=1)
    run_family(ctx, "fault_dv_partial", n_of(ctx, 256, 1024), perfile=64, seed_off=1)   # readers of several fields out of step after a failed load
    run_family(ctx, "fault_then_merge", n_of(ctx, 60, 600), perfile=20, seed_off=4, env_extra={"VERIF_INLINE": "1"})   # doc values of the merge that follows an abandoned one (same goroutine: same pooled objects)
    require_cov(ctx, "tag:dv_chunk_gap")
    canary(ctx)


def plan_C08(ctx):
    e1_reuse(ctx)
    e1_merge_term_loop(ctx)
    e2_merge_term_loop(ctx, n_of(ctx, 40, 600))
    run_family(ctx, "fault_then_merge", n_of(ctx, 30, 500), perfile=10)     # a healthy merge after abandoned ones
    run_family(ctx, "dict_ranges", n_of(ctx, 250, 5000), perfile=n_of(ctx, 20, 40))
    run_family(ctx, "dict_interleave", n_of(ctx, 120, 2500), perfile=n_of(ctx, 20, 40))
    run_family(ctx, "merge_obs", n_of(ctx, 100, 1500), perfile=20, seed_off=6)
    run_family(ctx, "bitmap_edges", n_of(ctx, 3, 12), perfile=1, seed_off=1)       # serialised bitmaps of exactly 4094..4098 bytes; array/bitmap container switch
    canary(ctx)
    run_family(ctx, "build_big", n_of(ctx, 7, 84), perfile=1, seed_off=4)         # dense terms last in their dictionary: length prefixes of run-optimised bitmaps


def race_pass(ctx, family, n, prop):
    """free-running goroutines under the Go race detector; reports inside ice are observations"""
    if not ctx.icex_race:
        build_harness(ctx, race=True)
    out = ctx.sub("race-%s" % family)
    try:
        p = run_icex(ctx, ["genrun", family, ctx.seed * 1000 + 77, n, out, max(1, n // 8)], race=True,
                     env_extra={"GORACE": "halt_on_error=0 exitcode=0"}, timeout=1800)
    except Crashed:
        ctx.log("race pass %s: executor crashed inside ice (recorded as violation)" % family)
        return []
    reports = [r for r in p.stderr.split("WARNING: DATA RACE")[1:]]
    inice = [r for r in reports if "/repo/" in r or "blugelabs/ice" in r]
    traces = sorted(glob.glob(os.path.join(out, "*.ndjson")))
    if traces:
        lines = open(traces[0]).read().splitlines()
        ev = dict(ev="race_report", prop=prop, n=len(inice), total=len(reports), g=0,
                  sample=(inice[0][:1500] if inice else ""))
        lines.insert(len(lines) - 1, json.dumps(ev))
        with open(traces[0], "w") as f:
            f.write("\n".join(lines) + "\n")
    ctx.cov["race_reports_in_ice"] = ctx.cov.get("race_reports_in_ice", 0) + len(inice)
    ctx.cov["race_pass_scenarios"] = ctx.cov.get("race_pass_scenarios", 0) + n
    return finish_dir(ctx, out, "race-" + family)


def plan_C09(ctx):
    e1_fst_cache(ctx)
    e2_fst_cache(ctx, n_of(ctx, 24, 300))
    e1_stored_read(ctx)
    e2_stored_read(ctx, n_of(ctx, 48, 600))
    run_family(ctx, "match", n_of(ctx, 40, 400), perfile=20, seed_off=6)          # results of DocsMatchingTerms are the caller's to edit
    run_family(ctx, "block_drop", n_of(ctx, 16, 112), perfile=4, seed_off=1)      # a destination that reads the inputs while the merge copies their stored blocks
    run_family(ctx, "conc_big", n_of(ctx, 3, 24), perfile=1)                        # several goroutines decompress (and compress) large chunks at once
    require_cov(ctx, "tag:nested", "tag:twoblocks")
    run_family(ctx, "conc_sched", n_of(ctx, 60, 1500), perfile=n_of(ctx, 10, 30))
    run_family(ctx, "conc_free", n_of(ctx, 40, 800), perfile=n_of(ctx, 8, 20))
    run_family(ctx, "conc_persist", n_of(ctx, 10, 200), perfile=10, seed_off=1)
    run_family(ctx, "conc_write", n_of(ctx, 8, 160), perfile=4, seed_off=2)
    run_family(ctx, "iter_share", n_of(ctx, 40, 600), perfile=20, seed_off=2)    # interleaved readers on one goroutine are schedules too
    run_family(ctx, "dict_interleave", n_of(ctx, 60, 600), perfile=20, seed_off=5)  # overlapping bounded dictionary scans
    race_pass(ctx, "conc_free", n_of(ctx, 24, 300), "C09")
    canary(ctx)


def plan_C10(ctx):
    e1_loc_stream(ctx)
    e2_loc_stream(ctx, n_of(ctx, 40, 400))       # location prefixes of postings whose locations name fields of different id widths (builder AND merger)
    e1_load_layout(ctx)
    e1_stored_codec(ctx)
    e1_chunking(ctx)
    run_family(ctx, "xver", n_of(ctx, 80, 1500), perfile=n_of(ctx, 8, 20))
    run_family(ctx, "xver_big", n_of(ctx, 14, 140), perfile=1)
    run_family(ctx, "roundtrip_big", n_of(ctx, 22, 110), perfile=2, seed_off=6)
    run_family(ctx, "card_boundary", n_of(ctx, 6, 24), perfile=1, seed_off=5)      # deleted 1-hit inputs next to a cardinality on a chunk-size step
    canary(ctx)


def plan_C11(ctx):
    e1_writer_crc(ctx)
    run_family(ctx, "conc_persist", n_of(ctx, 20, 300), perfile=10)       # overlapping WriteTo calls on one segment object
    run_family(ctx, "conc_write", n_of(ctx, 12, 200), perfile=6, seed_off=1)
    run_family(ctx, "faults_w", n_of(ctx, 2, 40), perfile=1, seed_off=3)     # the count returned = the bytes the destination received
    run_family(ctx, "faults_big", n_of(ctx, 2, 16), perfile=1)                # file-backed segment of several 64 KiB pieces
    run_family(ctx, "big_stored", n_of(ctx, 2, 12), perfile=1, seed_off=2)    # memory-backed segments of more than a megabyte
    run_family(ctx, "aligned", n_of(ctx, 4, 16), perfile=2)                   # data section an exact multiple of 1 MiB / 64 KiB / 2 MiB
    run_family(ctx, "twin_persist", n_of(ctx, 40, 600), perfile=20)          # same layout, different content, persisted back to back
    run_family(ctx, "big_dict_merge", n_of(ctx, 3, 30), perfile=1)            # multi-kilobyte single writes after many small ones
    run_family(ctx, "roundtrip", n_of(ctx, 150, 3000), perfile=n_of(ctx, 10, 30), seed_off=7)
    run_family(ctx, "merge_obs", n_of(ctx, 150, 3000), perfile=20, seed_off=8)
    canary(ctx)


def plan_C12(ctx):
    e1_writer_faults(ctx)
    # (one executor process per 40 scenarios: a scenario enumerates every fault offset x mode x buffer size and takes ~8 s)
    for part in range(1 if ctx.quick else 3):
        run_family(ctx, "faults_w", n_of(ctx, 6, 40), perfile=n_of(ctx, 1, 2), seed_off=20 * part)
    run_family(ctx, "faults_big", n_of(ctx, 2, 16), perfile=1, seed_off=1)
    run_family(ctx, "wide_tail", n_of(ctx, 2, 12), perfile=1)                 # > 1024 merged fields: close / failure points in the per-field tables at the end
    require_cov(ctx, "wfault_fail", "wfault_close", "wfault_nil_close")


def plan_C13(ctx):
    e1_ctx_reader(ctx)
    e2_ctx_reader(ctx, n_of(ctx, 40, 600))
    e1_reuse(ctx)
    e1_gen_api(ctx)
    e2_gen_api(ctx, n_of(ctx, 60, 1200))
    run_family(ctx, "reuse", n_of(ctx, 200, 4000), perfile=n_of(ctx, 20, 40))
    run_family(ctx, "reuse_pairs", n_of(ctx, 324, 1944), perfile=54)     # the whole predecessor/successor matrix
    run_family(ctx, "dict_interleave", n_of(ctx, 80, 1500), perfile=20, seed_off=4)
    run_family(ctx, "dv_walk", n_of(ctx, 8, 100), perfile=2, seed_off=9)
    run_family(ctx, "iter_share", n_of(ctx, 80, 1500), perfile=20, seed_off=1)
    run_family(ctx, "match", n_of(ctx, 60, 600), perfile=20, seed_off=3)           # the dictionary kept between consecutive terms of one call
    run_family(ctx, "fault_transient", n_of(ctx, 24, 240), perfile=6, seed_off=2, env_extra={"VERIF_INLINE": "1"})   # caches keyed before a read that failed
    canary(ctx)


def plan_C14(ctx):
    e1_builder_pool(ctx)
    run_family(ctx, "pool_seq", n_of(ctx, 150, 3000), perfile=n_of(ctx, 15, 40), env_extra={"VERIF_INLINE": "1"})
    run_family(ctx, "pool_big", n_of(ctx, 4, 40), perfile=1, env_extra={"VERIF_INLINE": "1"})
    run_family(ctx, "wide_repeat", n_of(ctx, 12, 200), perfile=4, env_extra={"VERIF_INLINE": "1"})   # wide schema, sparse stored fields
    run_family(ctx, "pool_vocab", n_of(ctx, 4, 24), perfile=1, env_extra={"VERIF_INLINE": "1"})     # > 10 000 distinct terms vs small vocabularies
    run_family(ctx, "pool_wrap", n_of(ctx, 6, 24), perfile=2, env_extra={"VERIF_INLINE": "1"})     # a builder's 65536th document
    run_family(ctx, "proc_history", n_of(ctx, 6, 60), perfile=3)                   # the same batch in fresh processes with different first builds
    run_family(ctx, "conc_build", n_of(ctx, 40, 600), perfile=n_of(ctx, 10, 20))
    run_family(ctx, "conc_write", n_of(ctx, 8, 160), perfile=4, seed_off=3)
    run_family(ctx, "conc_big", n_of(ctx, 3, 24), perfile=1, seed_off=1)           # concurrent builds whose chunks exceed a megabyte
    race_pass(ctx, "conc_build", n_of(ctx, 16, 200), "C14")
    require_cov(ctx, "pooled_builds")


def plan_C15(ctx):
    e1_gen_api(ctx)
    e2_gen_api(ctx, n_of(ctx, 60, 1200))
    run_family(ctx, "fault_transient", n_of(ctx, 48, 480), perfile=6, seed_off=3)  # a failed lazy load must not be remembered: later reads see the segment it was
    require_cov(ctx, "tag:api_merge_with_bitmap", "tag:api_prealloc", "tag:api_stats_add")
    run_family(ctx, "immut", n_of(ctx, 80, 1500), perfile=n_of(ctx, 8, 20))
    run_family(ctx, "immut", n_of(ctx, 40, 600), perfile=10, seed_off=5, env_extra={"VERIF_INLINE": "1"})   # one goroutine: the scratch objects a merge hands back are the ones the next reads get
    run_family(ctx, "dv_merge_order", n_of(ctx, 8, 80), perfile=2)                  # inputs read again after merges (small before large)
    run_family(ctx, "fault_then_merge", n_of(ctx, 30, 500), perfile=10, seed_off=1)  # inputs read again after abandoned merges
    run_family(ctx, "iter_share", n_of(ctx, 40, 600), perfile=20, seed_off=3)        # caller bitmaps handed to iterators that are recycled later
    canary(ctx)


def plan_C16(ctx):
    e1_merge_algo(ctx)
    run_family(ctx, "merge_obs", n_of(ctx, 250, 5000), perfile=n_of(ctx, 20, 40), seed_off=10)
    run_family(ctx, "build_obs", n_of(ctx, 100, 2000), perfile=20, seed_off=11)
    run_family(ctx, "roundtrip", n_of(ctx, 60, 1000), perfile=10, seed_off=12)
    run_family(ctx, "many_fields", n_of(ctx, 12, 200), perfile=2)
    run_family(ctx, "merge_chain", n_of(ctx, 40, 600), perfile=10, seed_off=4)
    run_family(ctx, "big_freq", n_of(ctx, 8, 80), perfile=4)                      # sums beyond 2^32 / 2^35 / 2^36
    run_family(ctx, "fault_then_merge", n_of(ctx, 30, 400), perfile=10, seed_off=3)   # statistics of merges that follow abandoned ones
    run_family(ctx, "stat_edges", n_of(ctx, 8, 32), perfile=2)                    # statistics equal to 127/128/129, 16383/16384/16385
    canary(ctx)


def plan_C17(ctx):
    e2_merge_algo(ctx)
    e1_algebra(ctx)
    e1_merge_algo(ctx)
    e1_merge_term_loop(ctx)
    e2_loc_stream(ctx, n_of(ctx, 40, 600))      # identity merges of 131-field segments with locations naming other fields
    run_family(ctx, "assoc", n_of(ctx, 120, 2500), perfile=n_of(ctx, 10, 20))
    run_family(ctx, "twin_merge", n_of(ctx, 60, 1200), perfile=10)
    run_family(ctx, "card_boundary", n_of(ctx, 6, 24), perfile=1, seed_off=2)
    run_family(ctx, "copy_boundary", n_of(ctx, 6, 60), perfile=2, seed_off=1)
    run_family(ctx, "merge_chain", n_of(ctx, 20, 300), perfile=10, seed_off=5)
    run_family(ctx, "block_drop", n_of(ctx, 16, 112), perfile=4)                 # deletions on the first/last slot of a stored block, all at once vs stepwise
    run_family(ctx, "dv_walk", n_of(ctx, 8, 100), perfile=2, seed_off=6)           # doc-value chunk gaps in an input that is not the first
    run_family(ctx, "big_dv", n_of(ctx, 2, 8), perfile=1, seed_off=1)              # a merged doc-value chunk of many megabytes
    canary(ctx)


def plan_C18(ctx):
    e1_match_loop(ctx)
    run_family(ctx, "match", n_of(ctx, 250, 5000), perfile=n_of(ctx, 20, 40))
    run_family(ctx, "fault_read", n_of(ctx, 60, 600), perfile=15, seed_off=4)     # lists of several pairs on failing storage: all, nothing or an error
    canary(ctx)


def plan_C19(ctx):
    e1_merge_reads(ctx)
    e1_dv_reader(ctx)
    e1_fst_cache(ctx)
    e2_fst_cache(ctx, n_of(ctx, 40, 400))
    run_family(ctx, "fault_read", n_of(ctx, 150, 3000), perfile=n_of(ctx, 15, 40))
    run_family(ctx, "fault_read_big", n_of(ctx, 8, 120), perfile=1)
    run_family(ctx, "fault_merge", n_of(ctx, 32, 256), perfile=16, seed_off=1)
    run_family(ctx, "fault_load", n_of(ctx, 20, 300), perfile=10, seed_off=1)       # every read of Load as a transient failure point
    run_family(ctx, "fault_dv_partial", n_of(ctx, 512, 2048), perfile=64)                           # every read of a chunk load as the failure point, both directions
    run_family(ctx, "fault_transient", n_of(ctx, 48, 480), perfile=6)                               # one failing read, then healthy storage
    run_family(ctx, "fault_transient", n_of(ctx, 24, 240), perfile=6, seed_off=1, env_extra={"VERIF_INLINE": "1"})   # same goroutine: same pooled scratch
    require_cov(ctx, "tag:fst_failed", "fsweep_once", "fsweep_after", "lsweep_once")


PLANS = {
    "C01": plan_C01, "C02": plan_C02, "C03": plan_C03, "C04": plan_C04, "C05": plan_C05, "C06": plan_C06,
    "C07": plan_C07, "C08": plan_C08, "C09": plan_C09, "C10": plan_C10, "C11": plan_C11, "C12": plan_C12,
    "C13": plan_C13, "C14": plan_C14, "C15": plan_C15, "C16": plan_C16, "C17": plan_C17, "C18": plan_C18,
    "C19": plan_C19, "TMP": plan_tmp,
}

RULE = ("scenario = (batches, operation list) executed on the real code; distinct by content hash; "
        "non-trivial = at least one indexed term and at least two operations; every event of every "
        "scenario is judged by TLC against Level A (IceData/IceAPI)")
LEVELS = {p: ("model_checking", RULE) for p in PLANS}


def replay(ctx, path):
    with open(path) as f:
        r = json.load(f)
    if r.get("kind") == "crash":
        # the executor died inside ice: run the same executor command again
        cmd = r.get("cmd", [])
        out = ctx.sub("replay-crash")
        cmd = [c if not (os.path.isabs(c) and ".work" in c) else out for c in cmd]
        try:
            run_icex(ctx, cmd)
        except Crashed as ex:
            print("VIOLATION property=%s replay=%s" % (ctx.prop, path))
            print("  executor process crashed inside ice again: %s" % str(ex)[:800])
            return 1
        print("crash did not reproduce (schedules of free-running goroutines are not deterministic)", file=sys.stderr)
        return 0
    if r.get("kind") != "scenario" or not r.get("scenario"):
        print("replay file has no scenario", file=sys.stderr)
        return 2
    found = run_scenarios(ctx, [r["scenario"]], "replay", perfile=1)
    for v in ctx.violations:
        print("VIOLATION property=%s replay=%s" % (v["prop"], path))
        print("  " + v["what"][:1500])
    return 1 if ctx.violations else 0




