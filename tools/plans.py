"""Per-property verification plans (which models, generators and drivers decide a property)."""
import json, os
from vcheck import *


def n_of(ctx, quick, thorough):
    return quick if ctx.quick else thorough


def plan_C01(ctx):
    run_family(ctx, "build_obs", n_of(ctx, 300, 6000), perfile=n_of(ctx, 20, 40))
    canary(ctx)


def e1_postings_iter(ctx):
    """E1: the iterator design refines Level A for every call sequence; each named deviation is caught."""
    tlc_mc(ctx, "PostingsIter", "MC_PostingsIter_%s.cfg" % ("quick" if ctx.quick else "thorough"))
    for dev in (("StrictReach",) if ctx.quick else ("StrictReach", "NoSameChunkReset", "SkipIgnoresLocs", "OneHitLeq")):
        tlc_mc(ctx, "PostingsIter", "MC_PostingsIter_dev_%s.cfg" % dev, workers=4, expect_violation="AllInv")


def e2_postings_iter(ctx, num):
    """E2: behaviours of the model (random configuration, random Next/Advance walk) replayed on real lists."""
    import lift
    behs = tlc_emit(ctx, "PostingsIter", "Gen_PostingsIter.cfg", os.path.join(ctx.work, "beh-iter.json"),
                    extra=["-simulate", "num=%d" % num, "-depth", "30", "-seed", str(ctx.seed)])
    behs = lift.dedupe(behs)
    scs = [lift.lift_iter(b, i) for i, b in enumerate(behs)]
    run_scenarios(ctx, scs, "e2iter", perfile=60)


def plan_C05(ctx):
    e1_postings_iter(ctx)
    e2_postings_iter(ctx, n_of(ctx, 400, 6000))
    run_family(ctx, "iter_walk", n_of(ctx, 300, 5000), perfile=50)
    run_family(ctx, "iter_big", n_of(ctx, 12, 150), perfile=n_of(ctx, 2, 5))
    require_cov(ctx, "tag:onehit", "tag:multichunk", "tag:excluded", "tag:advance", "tag:replace", "onehit_iter")
    canary(ctx)


PLANS = {
    "C01": plan_C01,
    "C05": plan_C05,
}

LEVELS = {
    "C05": ("model_checking", "E1: every reachable iterator state of the bounded model; E2/E3: scenario = (postings, locations, exclusion, chunk size, flags, call sequence); distinct by content hash; non-trivial = at least one indexed term and two operations"),
    "C01": ("model_checking", "scenario = (batches, operation list); distinct by content hash; non-trivial = at least one indexed term and at least two operations"),
}


def replay(ctx, path):
    with open(path) as f:
        r = json.load(f)
    if r.get("kind") != "scenario" or not r.get("scenario"):
        print("replay file has no scenario", file=sys.stderr)
        return 2
    found = run_scenarios(ctx, [r["scenario"]], "replay", perfile=1)
    for v in ctx.violations:
        print("VIOLATION property=%s replay=%s" % (v["prop"], path))
        print("  " + v["what"][:1500])
    return 1 if ctx.violations else 0


def plan_tmp(ctx):
    import os
    fams = os.environ.get("FAMS", "iter_walk").split(",")
    n = int(os.environ.get("N", "100"))
    for f in fams:
        run_family(ctx, f, n, perfile=int(os.environ.get("PF", "10")))

PLANS["TMP"] = plan_tmp
