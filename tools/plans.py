"""Per-property verification plans (which models, generators and drivers decide a property)."""
import json, os
from vcheck import *


def n_of(ctx, quick, thorough):
    return quick if ctx.quick else thorough


def plan_C01(ctx):
    run_family(ctx, "build_obs", n_of(ctx, 300, 6000), perfile=n_of(ctx, 20, 40))
    canary(ctx)


PLANS = {
    "C01": plan_C01,
}

LEVELS = {
    "C01": ("model_checking", "scenario = (batches, operation list); distinct by content hash; non-trivial = at least one indexed term and at least two operations"),
}


def replay(ctx, path):
    with open(path) as f:
        r = json.load(f)
    if r.get("kind") != "scenario" or not r.get("scenario"):
        print("replay file has no scenario", file=sys.stderr)
        return 2
    found = run_scenarios(ctx, [r["scenario"]], "replay", perfile=1)
    for v in ctx.violations:
        print("VIOLATION property=%s replay=%s" % (v["prop"], path))
        print("  " + v["what"][:1500])
    return 1 if ctx.violations else 0


def plan_tmp(ctx):
    import os
    fams = os.environ.get("FAMS", "iter_walk").split(",")
    n = int(os.environ.get("N", "100"))
    for f in fams:
        run_family(ctx, f, n, perfile=int(os.environ.get("PF", "10")))

PLANS["TMP"] = plan_tmp
