#!/bin/sh
# usage: tlcrun.sh <mode: trace|mc> <workdir> <Module.tla> <cfg> [extra tlc args...]
# Runs TLC in <workdir> (a scratch copy of the spec) with a private metadir.
mode=$1; wd=$2; mod=$3; cfg=$4; shift 4
cd "$wd" || exit 2
CP=/opt/veriftools/tla/tla2tools.jar:/opt/veriftools/tla/CommunityModules-deps.jar
if [ "$mode" = trace ]; then
  exec java -XX:+UseSerialGC -XX:TieredStopAtLevel=1 -Xss512m -Xms256m -Xmx3g -cp $CP tlc2.TLC -workers 1 -metadir "$wd/meta.$$" -config "$cfg" "$@" "$mod"
else
  exec java -XX:+UseParallelGC -Xss512m -Xmx${TLC_HEAP:-12g} -cp $CP tlc2.TLC -metadir "$wd/meta.$$" -config "$cfg" "$@" "$mod"
fi
