#!/bin/sh
# usage: mutant_confirm.sh <worktree>   -- confirms a seeded change: suite passes with it, demo fails with it and passes without it
d=$1; cd "$d" || exit 2
export GOFLAGS=-mod=mod GOPROXY=off GOSUMDB=off GOTOOLCHAIN=local
git checkout -q -- . ; cp _out/zz_demo_test.go zz_demo_test.go
git apply _out/patch.diff || { echo "patch does not apply"; exit 2; }
go build ./... || { echo "BUILD FAILS"; exit 1; }
s=$(go test -vet=off -count=1 -skip TestSeededDemo ./... 2>&1 | grep -E "^(ok|FAIL|---)" | head -3 | tr '\n' ' ')
w=$(go test -vet=off -count=1 -run TestSeededDemo . 2>&1 | tail -1)
git apply -R _out/patch.diff
wo=$(go test -vet=off -count=1 -run TestSeededDemo . 2>&1 | tail -1)
git apply _out/patch.diff
echo "suite-with: $s | demo-with: $w | demo-without: $wo"
