#!/bin/sh
# usage: mutant_eval.sh <patch.diff> <tier> <prop> [prop...]
# Applies a seeded change to /repo, runs the named checks, restores /repo. Prints one line per check.
patch=$1; tier=$2; shift 2
cd /repo || exit 2
if ! git diff --quiet; then echo "/repo has uncommitted changes" >&2; exit 2; fi
git apply "$patch" || { echo "patch does not apply" >&2; exit 2; }
cd /verif
for p in "$@"; do
  out=$(./check "$p" --tier "$tier" 2>/tmp/mutant_eval.$$.err)
  rc=$?
  nv=$(printf '%s\n' "$out" | grep -c '^VIOLATION')
  first=$(printf '%s\n' "$out" | grep -m1 '^VIOLATION' | cut -c1-120)
  echo "$p rc=$rc violations=$nv $first"
  if [ $rc -eq 2 ]; then tail -5 /tmp/mutant_eval.$$.err | cut -c1-400; fi
done
rm -f /tmp/mutant_eval.$$.err
git -C /repo checkout -- . && git -C /repo status --short | grep -v '^??' | head -3
