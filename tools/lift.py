"""Lifting of abstract behaviours emitted by the Level-I models (E2) to executable scenarios."""
import json


def B(s):
    return list(s.encode() if isinstance(s, str) else s)


def id_inst(d):
    i = B("d%d" % d)
    return {"name": "_id", "len": 1, "stored": True, "value": i, "dv": False,
            "terms": [{"term": i, "freq": 1, "locs": []}]}


def lift_iter(beh, idx):
    """PostingsIter behaviour -> scenario: a segment whose term a:x has exactly the modelled postings."""
    c = beh["cfg"]
    n, post, has = c["n"], set(c["post"]), set(c["hasLocs"])
    batch = []
    for d in range(n):
        doc = []
        if d % 2 == 0:
            doc.append(id_inst(d))
        terms = []
        if d in post:
            freq = 1 if c["onehit"] else 1 + d % 3
            locs = [{"field": "", "pos": 1 + d, "start": d, "end": d + 1 + 40 * (d % 3)}] if d in has else []
            terms.append({"term": B("x"), "freq": freq, "locs": locs})
        if d % 3 == 1:
            terms.append({"term": B("y"), "freq": 2, "locs": [{"field": "", "pos": 7, "start": 0, "end": 1}]})
        if terms:
            doc.append({"name": "a", "len": sum(t["freq"] for t in terms), "stored": False, "value": [], "dv": False,
                        "terms": terms})
        batch.append(doc)
    ops = [{"op": "build", "seg": 1, "batch": 0, "mode": c["cs"]}]
    seg = 1
    if c["onehit"]:
        ops += [{"op": "merge", "file": 1, "in": [1], "drops": [{"kind": "nil"}], "mode": c["cs"], "buf": 64},
                {"op": "load", "file": 1, "seg": 2, "backing": "mem"}]
        seg = 2
    o = {"op": "pl_open", "seg": seg, "field": "a", "term": B("x"), "pl": 10}
    if c["except"]["kind"] == "set":
        o["except"] = {"kind": "set", "docs": c["except"]["docs"]}
    ops.append(o)
    fn = c["fn"]
    ops.append({"op": "it_open", "pl": 10, "it": 20, "freq": fn and (idx % 3 != 1 or not c["locs"] and idx % 3 == 1 and False or fn),
                "norm": fn and idx % 2 == 0, "locs": c["locs"]})
    # includeFreqNorm = freq or norm or locs; make sure the flag class of the model is the one requested
    if fn and not ops[-1]["freq"] and not ops[-1]["norm"] and not c["locs"]:
        ops[-1]["freq"] = True
    if c["replace"]["kind"] == "set":
        ops.append({"op": "it_replace", "it": 20, "docs": c["replace"]["docs"]})
    for st in beh["ops"]:
        if st["op"] == "next":
            ops.append({"op": "it_next", "it": 20, "model_exp": st["exp"]})
        else:
            ops.append({"op": "it_adv", "it": 20, "d": st["d"], "model_exp": st["exp"]})
    ops += [{"op": "it_count", "it": 20}, {"op": "pl_count", "pl": 10}]
    tags = ["iter"]
    if c["onehit"]:
        tags.append("onehit")
    if len({d // c["cs"] for d in post}) > 1:
        tags.append("multichunk")
    if c["except"]["kind"] == "set" and set(c["except"]["docs"]) & post:
        tags.append("excluded")
    if any(st["op"] == "adv" for st in beh["ops"]):
        tags.append("advance")
    if c["replace"]["kind"] == "set":
        tags.append("replace")
    return {"name": "E2-iter-%d" % idx, "norm": "code", "universe": ["_id", "a"], "batches": [batch], "ops": ops,
            "tags": tags}


def dedupe(behs):
    seen, out = set(), []
    for b in behs:
        k = json.dumps(b, sort_keys=True)
        if k not in seen:
            seen.add(k)
            out.append(b)
    return out


def small_batch(fields=("a", "b"), ndocs=3):
    batch = []
    for d in range(ndocs):
        doc = [id_inst(d)]
        for k, f in enumerate(fields):
            terms = [{"term": B("t%d" % ((d + k) % 2)), "freq": 1, "locs": []},
                     {"term": B("x"), "freq": 2, "locs": [{"field": "", "pos": 1, "start": 0, "end": 1}]}]
            doc.append({"name": f, "len": 3, "stored": True, "value": B("v%d" % d), "dv": k == 0, "terms": terms})
        batch.append(doc)
    return batch


def lift_fst(beh, idx):
    """FstCache behaviour -> two goroutines calling Dictionary on a file-backed segment, released in the
    model's order; the model's storage failure closes the file at the same point of the schedule."""
    procs = sorted({h["p"] for h in beh["hist"] if h["p"] != 0})
    groups = []
    for p in procs:
        ops = []
        for h in beh["hist"]:
            if h["p"] == p and h["at"] == "call":
                ops.append({"op": "dict", "seg": 2, "field": h["f"]})
                ops.append({"op": "contains", "seg": 2, "field": h["f"], "term": B("x")})
        groups.append(ops)
    sched, at_gate = [], {p: False for p in procs}
    for h in beh["hist"]:
        p = h["p"]
        if h["at"] == "storage-fails":
            sched.append(0)
        elif h["at"] == "fst:load":
            at_gate[p] = True
        elif h["at"] == "done":
            if at_gate[p]:
                sched.append(procs.index(p) + 1)
                at_gate[p] = False
            sched.append(procs.index(p) + 1)      # the contains() that follows each dictionary call
        elif h["at"] == "call":
            if at_gate[p]:
                sched.append(procs.index(p) + 1)
                at_gate[p] = False
            sched.append(procs.index(p) + 1)
    ops = [{"op": "watchdog", "watchdog_ms": 2000},
           {"op": "build", "seg": 1, "batch": 0, "mode": 0},
           {"op": "persist", "seg": 1, "file": 1},
           {"op": "load", "file": 1, "seg": 2, "backing": "file"},
           {"op": "sched", "seg": 2, "groups": groups, "schedule": sched}]
    for f in ("a", "b", "zz", "_id"):
        ops += [{"op": "dict", "seg": 2, "field": f}, {"op": "dict", "seg": 2, "field": f},
                {"op": "pl_open", "seg": 2, "field": f, "term": B("x"), "pl": 10}]
    tags = ["fst"]
    if beh.get("failed"):
        tags.append("fst_failed")
    return {"name": "E2-fst-%d" % idx, "norm": "code", "universe": ["_id", "a", "b", "zz"],
            "batches": [small_batch()], "ops": ops, "tags": tags}


def lift_stored(beh, idx):
    """StoredRead behaviour -> goroutines visiting stored fields of documents in two 128-document blocks,
    released at the gate points in the model's order, with the model's nested visits."""
    ndocs = 131
    batch = []
    for d in range(ndocs):
        if d == ndocs - 1:
            batch.append([{"name": "_id", "len": 1, "stored": True, "value": [], "dv": False,
                           "terms": [{"term": B("d%d" % d), "freq": 1, "locs": []}]},
                          {"name": "a", "len": 0, "stored": True, "value": [], "dv": False, "terms": []}])
            continue
        batch.append([id_inst(d),
                      {"name": "a", "len": 1, "stored": True, "value": B("value-%d" % d), "dv": False,
                       "terms": [{"term": B("t%d" % (d % 5)), "freq": 1, "locs": []}]}])

    def docno(blk, last):
        return {(1, False): 3, (1, True): 127, (2, False): 128, (2, True): ndocs - 1}[(blk, bool(last))]

    procs = sorted({h["p"] for h in beh["hist"]})
    seg = 2 if idx % 2 else 1
    groups = []
    for p in procs:
        tops, stack = [], []
        for h in beh["hist"]:
            if h["p"] != p:
                continue
            if h["at"] == "decomp":
                node = {"op": "stored", "seg": seg, "n": docno(h["blk"], h["last"]), "_cbs": 0}
                if stack:
                    node["at_cb"] = stack[-1]["_cbs"]
                    stack[-1].setdefault("nest", []).append(node)
                else:
                    tops.append(node)
                stack.append(node)
            elif h["at"] == "cb":
                stack[-1]["_cbs"] += 1
            elif h["at"] == "ret":
                stack.pop()

        def clean(n):
            n.pop("_cbs", None)
            for c in n.get("nest", []):
                clean(c)
            return n
        groups.append([clean(t) for t in tops])
    sched = [procs.index(h["p"]) + 1 for h in beh["hist"]]
    ops = [{"op": "build", "seg": 1, "batch": 0, "mode": 0}]
    if seg == 2:
        ops += [{"op": "persist", "seg": 1, "file": 1},
                {"op": "load", "file": 1, "seg": 2, "backing": "file" if idx % 4 == 1 else "mem"}]
    ops.append({"op": "sched", "groups": groups, "schedule": sched})
    tags = ["stored_sched"]
    if any("nest" in g for grp in groups for g in grp):
        tags.append("nested")
    blocks = {h["blk"] for h in beh["hist"]}
    if len(blocks) > 1:
        tags.append("twoblocks")
    return {"name": "E2-stored-%d" % idx, "norm": "code", "universe": ["_id", "a"], "batches": [batch],
            "ops": ops, "tags": tags}


def lift_merge(beh, idx):
    """MergeAlgo configuration (catalogue selection + deletion sets) -> the same merge on the real code."""
    cat = beh["catalogue"]
    batches = [cat[i - 1] for i in beh["sel"]]
    modes = [1, 2, 3, 0, 1024]
    ops = []
    for k in range(len(batches)):
        ops.append({"op": "build", "seg": k + 1, "batch": k, "mode": modes[(idx + k) % len(modes)]})
    drops = [{"kind": "set", "docs": d} if d or (idx + k) % 2 else {"kind": "nil"} for k, d in enumerate(beh["drops"])]
    ops += [{"op": "merge", "file": 1, "in": list(range(1, len(batches) + 1)), "drops": drops,
             "mode": modes[idx % len(modes)], "buf": [1, 16, 64, 4096][idx % 4]},
            {"op": "layout", "file": 1},
            {"op": "load", "file": 1, "seg": 9, "backing": "file" if idx % 3 == 0 else "mem"},
            {"op": "observe", "seg": 9, "level": "full"},
            {"op": "persist", "seg": 9, "file": 2},
            {"op": "merge", "file": 3, "in": [9], "drops": [{"kind": "nil"}], "mode": modes[idx % len(modes)], "buf": 64},
            {"op": "load", "file": 3, "seg": 10, "backing": "mem"},
            {"op": "observe", "seg": 10, "level": "full"},
            {"op": "same_obs", "in": [9, 10]}]
    return {"name": "E2-merge-%d" % idx, "norm": "code", "universe": ["_id", "a", "b", "c", "nosuchfield"],
            "batches": batches, "ops": ops, "tags": ["e2merge"]}


def lift_api(beh, idx):
    """GenAPI history -> scenario; a digest of every live segment and bitmap follows every operation (C15)."""
    cat = beh["catalogue"]
    batches, bmap = [], {}
    ops = []
    nfile = 0
    modes = [1, 2, 3, 0, 1024]
    for k, h in enumerate(beh["hist"]):
        o = h["op"]
        if o == "def_bm":
            ops.append({"op": "def_bm", "bm": h["bm"], "docs": h["docs"]})
        elif o == "build":
            if h["batch"] not in bmap:
                bmap[h["batch"]] = len(batches)
                batches.append(cat[h["batch"] - 1])
            ops.append({"op": "build", "seg": h["seg"], "batch": bmap[h["batch"]], "mode": modes[(idx + k) % len(modes)]})
        elif o == "persist_load":
            nfile += 1
            ops += [{"op": "persist", "seg": h["from"], "file": nfile},
                    {"op": "load", "file": nfile, "seg": h["seg"], "backing": "file" if (idx + k) % 2 else "mem"}]
        elif o == "merge":
            nfile += 1
            drops = [{"kind": "bm", "bm": d} if d else {"kind": "nil"} for d in h["drops"]]
            ops += [{"op": "merge", "file": nfile, "in": h["ins"], "drops": drops, "mode": modes[(idx + k) % len(modes)], "buf": 64},
                    {"op": "load", "file": nfile, "seg": h["seg"], "backing": "mem"}]
        elif o == "pl_open":
            op = {"op": "pl_open", "seg": h["seg"], "field": h["field"], "term": h["term"], "pl": 100 + h["pl"]}
            if h["ex"]:
                op["except"] = {"kind": "bm", "bm": h["ex"]}
            if h["prealloc"]:
                op["prealloc"] = 100 + h["prealloc"]
            ops.append(op)
        elif o == "it_open":
            op = {"op": "it_open", "pl": 100 + h["pl"], "it": 200 + h["it"], "freq": True, "norm": True, "locs": True}
            if h["prealloc"]:
                op["prealloc"] = 200 + h["prealloc"]
            ops.append(op)
        elif o == "it_next":
            ops.append({"op": "it_next", "it": 200 + h["it"]})
        elif o == "it_adv":
            ops.append({"op": "it_adv", "it": 200 + h["it"], "d": h["d"]})
        elif o == "observe":
            ops.append({"op": "observe", "seg": h["seg"], "level": "light"})
        elif o == "stored":
            ops.append({"op": "stored", "seg": h["seg"], "n": h["n"], "stop": h["stop"]})
        elif o == "it_close":
            ops.append({"op": "it_close", "it": 200 + h["it"]})
        elif o == "dict_close":
            ops.append({"op": "dict_close", "seg": h["seg"], "field": h["field"], "reuse_dict": (idx + k) % 2 == 0})
        elif o == "stats_get":
            ops.append({"op": "stats_get", "seg": h["seg"], "field": h["field"], "r": h["r"]})
        elif o == "stats_add":
            ops.append({"op": "stats_add", "r": h["r"], "r2": h["r2"]})
            # every other statistics object must still read what it read before
            ops += [{"op": "stats_read", "r": x} for x in range(1, 4)]
        elif o == "stats_read":
            ops.append({"op": "stats_read", "r": h["r"]})
        elif o == "match":
            ops.append({"op": "match", "seg": h["seg"], "pairs": [{"field": "a", "term": [120]}, {"field": "_id", "term": [48]}]})
        elif o == "def_fields":
            continue          # the executor keeps ONE slice per requested list: dv_open with equal lists hands in the same object
        elif o == "dv_open":
            ops.append({"op": "dv_open", "seg": h["seg"], "r": 300 + h["r"], "fields": list(h["fields"])})
        elif o == "dv_visit":
            ops.append({"op": "dv_visit", "r": 300 + h["r"], "n": h["n"]})
        elif o == "dit_open":
            ops.append({"op": "dit_open", "seg": h["seg"], "field": h["field"], "r": 400 + h["r"], "reuse_dict": (idx + k) % 2 == 0})
        elif o == "dit_next":
            ops.append({"op": "dit_next", "r": 400 + h["r"]})
        elif o == "dit_close":
            ops.append({"op": "dit_close", "r": 400 + h["r"]})
        ops.append({"op": "digest"})
    tags = ["api"]
    if any(h["op"] == "merge" and any(h["drops"]) for h in beh["hist"]):
        tags.append("api_merge_with_bitmap")
    if any(h["op"] in ("pl_open", "it_open") and h.get("prealloc") for h in beh["hist"]):
        tags.append("api_prealloc")
    if any(h["op"] == "stats_add" for h in beh["hist"]):
        tags.append("api_stats_add")
    if any(h["op"] == "dit_close" for h in beh["hist"]):
        tags.append("api_dit_close")
    if sum(1 for h in beh["hist"] if h["op"] == "dv_open") >= 2:
        tags.append("api_dv_two_readers")
    return {"name": "E2-api-%d" % idx, "norm": "code", "universe": ["_id", "a", "b", "c", "zz"],
            "batches": batches, "ops": ops, "tags": tags}


def lift_build(beh, idx):
    """BuildAlgo catalogue batch -> built under every chunk mode, fully observed, persisted and reloaded."""
    ops = []
    for k, mode in enumerate([1, 2, 3, 5, 1024, 0]):
        ops += [{"op": "build", "seg": k + 1, "batch": 0, "mode": mode}, {"op": "observe", "seg": k + 1, "level": "full"}]
    ops += [{"op": "persist", "seg": 1, "file": 1}, {"op": "load", "file": 1, "seg": 9, "backing": "file"},
            {"op": "observe", "seg": 9, "level": "full"}]
    return {"name": "E2-build-%d" % beh["id"], "norm": "code" if idx % 2 == 0 else "invsqrt",
            "universe": ["_id", "a", "b", "c", "nosuchfield"], "batches": [beh["batch"]], "ops": ops, "tags": ["e2build"]}


def lift_locstream(beh, idx):
    """LocStream configuration -> a segment with 131 fields whose term g000:t has exactly the modelled postings and
    locations (field ids on both sides of 127/128, components on both sides of the varint widths), read with the
    modelled read/skip pattern - by Advance, and again with the skipped documents excluded - on the built and on
    the merged segment."""
    names = ["g%03d" % k for k in range(130)]            # ids 1..130; "_id" is id 0

    def fname(fid):
        return "_id" if fid == 0 else names[fid - 1]
    anchor = [id_inst(0)] + [{"name": f, "len": 0, "stored": False, "value": [], "dv": False, "terms": []} for f in names]
    batch = [anchor]
    for p, ls in enumerate(beh["posts"]):
        locs = [{"field": fname(l["field"]), "pos": l["pos"], "start": l["start"], "end": l["end"]} for l in ls]
        freq = max(1, len(locs)) + (p % 2)
        batch.append([id_inst(p + 1), {"name": "g000", "len": freq, "stored": False, "value": [], "dv": False,
                                       "terms": [{"term": B("t"), "freq": freq, "locs": locs}]}])
    mode = [1, 2, 0, 3][idx % 4]
    ops = [{"op": "build", "seg": 1, "batch": 0, "mode": mode},
           {"op": "merge", "file": 1, "in": [1], "drops": [{"kind": "nil"}], "mode": [2, 0, 1][idx % 3], "buf": 64},
           {"op": "load", "file": 1, "seg": 2, "backing": "file" if idx % 2 else "mem"}]
    plan = beh["plan"]
    skipped = [p + 1 for p, a in enumerate(plan) if a == "skip"]
    for seg in (1, 2):
        # (1) skipped postings are stepped over by Advance
        ops += [{"op": "pl_open", "seg": seg, "field": "g000", "term": B("t"), "pl": 10 * seg},
                {"op": "it_open", "pl": 10 * seg, "it": 10 * seg + 1, "freq": True, "norm": True, "locs": True}]
        pending = False
        for p, a in enumerate(plan):
            if a == "skip":
                pending = True
            elif pending:
                ops.append({"op": "it_adv", "it": 10 * seg + 1, "d": p + 1, "model_exp": p + 1})
                pending = False
            else:
                ops.append({"op": "it_next", "it": 10 * seg + 1, "model_exp": p + 1})
        # (2) skipped postings are excluded
        ops += [{"op": "pl_open", "seg": seg, "field": "g000", "term": B("t"), "pl": 10 * seg + 2,
                 "except": {"kind": "set", "docs": skipped}},
                {"op": "it_open", "pl": 10 * seg + 2, "it": 10 * seg + 3, "freq": True, "norm": True, "locs": True}]
        for p, a in enumerate(plan):
            if a == "read":
                ops.append({"op": "it_next", "it": 10 * seg + 3, "model_exp": p + 1})
        ops.append({"op": "it_next", "it": 10 * seg + 3, "model_exp": -1})
    # single-segment identity (C17): merging the merged segment alone, without deletions, changes nothing observable
    ops += [{"op": "merge", "file": 3, "in": [2], "drops": [{"kind": "nil"}], "mode": 0, "buf": 64},
            {"op": "load", "file": 3, "seg": 3, "backing": "mem"},
            {"op": "pl_open", "seg": 3, "field": "g000", "term": B("t"), "pl": 40},
            {"op": "it_open", "pl": 40, "it": 41, "freq": True, "norm": True, "locs": True}]
    ops += [{"op": "it_next", "it": 41} for _ in range(len(plan) + 1)]
    ops.append({"op": "same_obs", "in": [2, 3]})
    return {"name": "E2-loc-%d" % idx, "norm": "code", "universe": ["_id", "g000", "g126", "g127"], "batches": [batch], "ops": ops,
            "tags": ["e2loc"]}


def lift_ctxreader(beh, idx):
    """CtxReader visit sequence -> stored visits (with early stops) on a segment whose documents store 0, 1, 2, 3
    values; on the built segment, the loaded one, and through a merge that re-encodes (one shared context)."""
    batch = []
    for d, nv in enumerate(beh["vals"]):
        doc = [{"name": "_id", "len": 1, "stored": False, "value": [], "dv": False, "terms": [{"term": B("d%d" % d), "freq": 1, "locs": []}]}]
        for k in range(nv):
            doc.append({"name": "s%d" % (k % 2), "len": 1, "stored": True, "value": B("v%d-%d" % (d, k)), "dv": False,
                        "terms": [{"term": B("x"), "freq": 1, "locs": []}]})
        batch.append(doc)
    ops = [{"op": "build", "seg": 1, "batch": 0, "mode": 0}, {"op": "persist", "seg": 1, "file": 1},
           {"op": "load", "file": 1, "seg": 2, "backing": "file" if idx % 2 else "mem"}]
    for seg in (1, 2):
        for h in beh["hist"]:
            ops.append({"op": "stored", "seg": seg, "n": h["doc"] - 1, "stop": h["stop"]})
    # a stopped visit right before a merge that re-encodes the stored fields (deletion -> one context for all documents)
    ops += [{"op": "stored", "seg": 1, "n": 3, "stop": 1},
            {"op": "merge", "file": 2, "in": [1], "drops": [{"kind": "set", "docs": [2]}], "mode": 0, "buf": 64},
            {"op": "load", "file": 2, "seg": 3, "backing": "mem"}]
    ops += [{"op": "stored", "seg": 3, "n": n} for n in range(4)]
    return {"name": "E2-ctx-%d" % idx, "norm": "code", "universe": ["_id", "s0", "s1"], "batches": [batch], "ops": ops, "tags": ["e2ctx"]}


def lift_termloop(beh, idx):
    """MergeTermLoop configuration -> input segments whose field f has exactly the modelled (term, document) postings
    (term 0 = the empty term), merged with the modelled deletions in the default and in small chunk modes, merged
    again (1-hit inputs), everything observed in full."""
    tbytes = {0: [], 1: B("a"), 2: B("b")}
    batches = []
    for s, post in enumerate(beh["post"]):
        n = beh["segdocs"][s]
        batch = []
        for d in range(n):
            doc = [id_inst(100 * s + d)]
            terms = []
            for t in sorted(post, key=int):
                a = post[t][str(d)] if isinstance(post[t], dict) else post[t][d]
                if a["freq"] == 0:
                    continue
                locs = [{"field": "", "pos": 1 + d, "start": 0, "end": 2}] if a["locs"] else []
                terms.append({"term": tbytes[int(t)], "freq": a["freq"], "locs": locs})
            if terms:
                doc.append({"name": "f", "len": sum(x["freq"] for x in terms), "stored": False, "value": [], "dv": idx % 2 == 0,
                            "terms": terms})
            batch.append(doc)
        batches.append(batch)
    k = len(batches)
    ops = [{"op": "build", "seg": s + 1, "batch": s, "mode": [0, 1, 2][(idx + s) % 3]} for s in range(k)]
    drops = [{"kind": "set", "docs": d} if d else {"kind": "nil"} for d in beh["drops"]]
    ops += [{"op": "merge", "file": 10, "in": list(range(1, k + 1)), "drops": drops, "mode": 0, "buf": 64},
            {"op": "load", "file": 10, "seg": 10, "backing": "mem"},
            {"op": "merge", "file": 11, "in": list(range(1, k + 1)), "drops": drops, "mode": [1, 2, 1024][idx % 3], "buf": 64},
            {"op": "load", "file": 11, "seg": 11, "backing": "file" if idx % 2 else "mem"},
            # merged again: the inputs now carry 1-hit values
            {"op": "merge", "file": 12, "in": [10, 11], "drops": [{"kind": "nil"}, {"kind": "nil"}], "mode": 0, "buf": 64},
            {"op": "load", "file": 12, "seg": 12, "backing": "mem"}]
    ops += [{"op": "observe", "seg": h, "level": "full"} for h in (10, 11, 12)]
    return {"name": "E2-termloop-%d" % idx, "norm": "code", "universe": ["_id", "f"], "batches": batches, "ops": ops,
            "tags": ["e2termloop"] + (["termloop_onehit"] if any(w["onehit"] for w in beh["written"]) else [])}


def lift_dvmerge(beh, idx):
    """DvMerge configuration -> input segments with the modelled field lists (field ids = list positions: a field
    instance without terms in document 0 pins the id of a field whose first term comes later or never), terms and
    doc-value flags; merged with the modelled deletions, the result observed in full (postings, doc values of every
    document through readers over both field orders), then merged once more with the first input."""
    batches, dropl = [], []
    for s, c in enumerate(beh["segs"]):
        batch = []
        for d in range(c["ndocs"]):
            doc = [id_inst(100 * s + d)]
            for F in c["fields"]:
                dv = bool(c["dv"][F])
                if d in c["tdocs"][F]:
                    terms = [{"term": B("%s%d" % (F, d % 2)), "freq": 1, "locs": []}]
                    if (s + d) % 3 == 0:
                        terms.append({"term": B("z%d" % s), "freq": 2, "locs": []})
                    doc.append({"name": F, "len": sum(t["freq"] for t in terms), "stored": False, "value": [], "dv": dv, "terms": terms})
                elif d == 0:
                    doc.append({"name": F, "len": 0, "stored": False, "value": [], "dv": dv, "terms": []})
            batch.append(doc)
        batches.append(batch)
        dropl.append({"kind": "set", "docs": c["drops"]} if c["drops"] else {"kind": "nil"})
    k = len(batches)
    ops = [{"op": "build", "seg": s + 1, "batch": s, "mode": 0} for s in range(k)]
    ins = list(range(1, k + 1))
    if idx % 2:
        # file-backed copies as inputs
        for s in range(k):
            ops += [{"op": "persist", "seg": s + 1, "file": 20 + s}, {"op": "load", "file": 20 + s, "seg": 21 + s, "backing": "file" if s % 2 else "mem"}]
        ins = [21 + s for s in range(k)]
    ops += [{"op": "merge", "file": 10, "in": ins, "drops": dropl, "mode": 0, "buf": 64},
            {"op": "load", "file": 10, "seg": 10, "backing": "mem"},
            {"op": "observe", "seg": 10, "level": "full"}]
    total = sum(c["ndocs"] - len(c["drops"]) for c in beh["segs"])
    for r, fl in ((1, ["f", "g"]), (2, ["g", "f"]), (3, ["g"])):
        ops.append({"op": "dv_open", "seg": 10, "r": r, "fields": fl})
        order = list(range(total)) if r != 2 else list(reversed(range(total)))
        ops += [{"op": "dv_visit", "r": r, "n": n} for n in order]
    ops += [{"op": "merge", "file": 11, "in": [10, ins[0]], "drops": [{"kind": "nil"}, {"kind": "nil"}], "mode": 0, "buf": 64},
            {"op": "load", "file": 11, "seg": 11, "backing": "mem"}, {"op": "observe", "seg": 11, "level": "full"}]
    return {"name": "E2-dvmerge-%d" % idx, "norm": "code", "universe": ["_id", "f", "g"], "batches": batches, "ops": ops,
            "tags": ["e2dvmerge"]}
