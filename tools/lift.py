"""Lifting of abstract behaviours emitted by the Level-I models (E2) to executable scenarios."""
import json


def B(s):
    return list(s.encode() if isinstance(s, str) else s)


def id_inst(d):
    i = B("d%d" % d)
    return {"name": "_id", "len": 1, "stored": True, "value": i, "dv": False,
            "terms": [{"term": i, "freq": 1, "locs": []}]}


def lift_iter(beh, idx):
    """PostingsIter behaviour -> scenario: a segment whose term a:x has exactly the modelled postings."""
    c = beh["cfg"]
    n, post, has = c["n"], set(c["post"]), set(c["hasLocs"])
    batch = []
    for d in range(n):
        doc = []
        if d % 2 == 0:
            doc.append(id_inst(d))
        terms = []
        if d in post:
            freq = 1 if c["onehit"] else 1 + d % 3
            locs = [{"field": "", "pos": 1 + d, "start": d, "end": d + 1 + 40 * (d % 3)}] if d in has else []
            terms.append({"term": B("x"), "freq": freq, "locs": locs})
        if d % 3 == 1:
            terms.append({"term": B("y"), "freq": 2, "locs": [{"field": "", "pos": 7, "start": 0, "end": 1}]})
        if terms:
            doc.append({"name": "a", "len": sum(t["freq"] for t in terms), "stored": False, "value": [], "dv": False,
                        "terms": terms})
        batch.append(doc)
    ops = [{"op": "build", "seg": 1, "batch": 0, "mode": c["cs"]}]
    seg = 1
    if c["onehit"]:
        ops += [{"op": "merge", "file": 1, "in": [1], "drops": [{"kind": "nil"}], "mode": c["cs"], "buf": 64},
                {"op": "load", "file": 1, "seg": 2, "backing": "mem"}]
        seg = 2
    o = {"op": "pl_open", "seg": seg, "field": "a", "term": B("x"), "pl": 10}
    if c["except"]["kind"] == "set":
        o["except"] = {"kind": "set", "docs": c["except"]["docs"]}
    ops.append(o)
    fn = c["fn"]
    ops.append({"op": "it_open", "pl": 10, "it": 20, "freq": fn and (idx % 3 != 1 or not c["locs"] and idx % 3 == 1 and False or fn),
                "norm": fn and idx % 2 == 0, "locs": c["locs"]})
    # includeFreqNorm = freq or norm or locs; make sure the flag class of the model is the one requested
    if fn and not ops[-1]["freq"] and not ops[-1]["norm"] and not c["locs"]:
        ops[-1]["freq"] = True
    if c["replace"]["kind"] == "set":
        ops.append({"op": "it_replace", "it": 20, "docs": c["replace"]["docs"]})
    for st in beh["ops"]:
        if st["op"] == "next":
            ops.append({"op": "it_next", "it": 20, "model_exp": st["exp"]})
        else:
            ops.append({"op": "it_adv", "it": 20, "d": st["d"], "model_exp": st["exp"]})
    ops += [{"op": "it_count", "it": 20}, {"op": "pl_count", "pl": 10}]
    tags = ["iter"]
    if c["onehit"]:
        tags.append("onehit")
    if len({d // c["cs"] for d in post}) > 1:
        tags.append("multichunk")
    if c["except"]["kind"] == "set" and set(c["except"]["docs"]) & post:
        tags.append("excluded")
    if any(st["op"] == "adv" for st in beh["ops"]):
        tags.append("advance")
    if c["replace"]["kind"] == "set":
        tags.append("replace")
    return {"name": "E2-iter-%d" % idx, "norm": "code", "universe": ["_id", "a"], "batches": [batch], "ops": ops,
            "tags": tags}


def dedupe(behs):
    seen, out = set(), []
    for b in behs:
        k = json.dumps(b, sort_keys=True)
        if k not in seen:
            seen.add(k)
            out.append(b)
    return out
