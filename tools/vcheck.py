"""Driver logic of ./check. See DESIGN.md section 8."""
import argparse, concurrent.futures as cf, glob, hashlib, json, os, re, shutil, subprocess, sys, threading, time, traceback

VERIF = os.path.dirname(os.path.dirname(os.path.abspath(__file__)))
REPO = os.environ.get("VERIF_REPO", "/repo")
GOENV = dict(GOFLAGS="-mod=mod", GOPROXY="off", GOSUMDB="off", GOTOOLCHAIN="local", CGO_ENABLED_RACE="1")
NCPU = os.cpu_count() or 4


class Fault(Exception):
    """machinery fault: exit 2, never a violation"""


class Ctx:
    def __init__(self, prop, tier, seed, keep=False):
        self.prop, self.tier, self.seed, self.keep = prop, tier, seed, keep
        self.t0 = time.time()
        self.work = os.path.join(VERIF, ".work", "%s-%d" % (prop, os.getpid()))
        shutil.rmtree(self.work, ignore_errors=True)
        os.makedirs(self.work)
        self.specdir = os.path.join(self.work, "spec")
        shutil.copytree(os.path.join(VERIF, "spec"), self.specdir)
        self.icex = None
        self.icex_race = None
        self.violations = []      # dicts: prop, what, replay
        self.known_hits = []
        self.mc = []              # model-checking results
        self.states = 0
        self.transitions = 0
        self.traces = 0
        self.events = 0
        self.scenarios = 0
        self.scen_hashes = set()
        self.nontrivial = set()
        self.samples = []
        self.cov = {}
        self.notes = []
        self.assumptions = []
        self.replay_n = 0
        self.quick = tier == "quick"

    def log(self, *a):
        print("[check %s %.1fs]" % (self.prop, time.time() - self.t0), *a, file=sys.stderr, flush=True)

    def sub(self, name):
        d = os.path.join(self.work, name)
        os.makedirs(d, exist_ok=True)
        return d

    def cleanup(self):
        if not self.keep:
            shutil.rmtree(self.work, ignore_errors=True)


# ----------------------------------------------------------------------------------------
# building the executor from /repo's current working tree

def build_harness(ctx, race=False):
    env = dict(os.environ, **GOENV)
    env.pop("CGO_ENABLED_RACE", None)
    out = os.path.join(ctx.work, "icex-race" if race else "icex")
    hdir = os.path.join(VERIF, "harness")
    if REPO != "/repo":
        # evaluation of a scratch copy of blugelabs/ice (seeded changes): private copy of the harness module
        hdir = os.path.join(ctx.work, "hsrc", "harness")
        if not os.path.exists(hdir):
            shutil.copytree(os.path.join(VERIF, "harness"), hdir)
            shutil.copytree(os.path.join(VERIF, "refimpl"), os.path.join(ctx.work, "hsrc", "refimpl"))
            gm = open(os.path.join(hdir, "go.mod")).read().replace("=> /repo", "=> " + REPO)
            open(os.path.join(hdir, "go.mod"), "w").write(gm)
    gosum = os.path.join(hdir, "go.sum")
    if not os.path.exists(gosum):
        shutil.copy(os.path.join(REPO, "go.sum"), gosum)
    cmd = ["go", "build", "-tags", "verif", "-o", out]
    if race:
        cmd.insert(2, "-race")
    cmd.append(".")
    p = subprocess.run(cmd, cwd=hdir, env=env, capture_output=True, text=True)
    if p.returncode != 0:
        raise Fault("harness does not build against /repo (tag verif):\n" + p.stdout + p.stderr)
    if race:
        ctx.icex_race = out
    else:
        ctx.icex = out
    return out


def run_icex(ctx, args, timeout=1200, race=False, env_extra=None, allow_fail=False):
    exe = ctx.icex_race if race else ctx.icex
    env = dict(os.environ, VERIF_WORK=ctx.sub("files"))
    if env_extra:
        env.update(env_extra)
    try:
        p = subprocess.run([exe] + [str(a) for a in args], capture_output=True, text=True, timeout=timeout, env=env)
    except subprocess.TimeoutExpired:
        raise Fault("executor timed out: icex %s" % " ".join(map(str, args)))
    if p.returncode != 0 and not allow_fail:
        err = p.stdout + p.stderr
        crash = crash_in_ice(err)
        if crash:
            # the executor process died inside ice (e.g. "fatal error: concurrent map writes", a panic on a
            # goroutine no recover() can reach): that abnormal exit is itself the observation (DESIGN 4.2)
            record_violation(ctx, {ctx.prop}, "executor process crashed inside ice: " + crash[:1200],
                             dict(kind="crash", property=[ctx.prop], cmd=[str(a) for a in args], stderr=err[-6000:]))
            raise Crashed(crash)
        raise Fault("executor failed (rc=%d): icex %s\n%s" % (p.returncode, " ".join(map(str, args)), err[-3000:]))
    return p


class Crashed(Exception):
    """the executor died inside ice; a violation has been recorded"""


def crash_in_ice(err):
    """first lines of a Go crash report whose stack has an ice frame (not a harness-only panic)"""
    m = re.search(r"^(fatal error: .*|panic: .*)$", err, re.M)
    if not m:
        return None
    tail = err[m.start():]
    if "github.com/blugelabs/ice/v2." not in tail:
        # a panic on a goroutine that the zstd codec started on ice's behalf has no ice frame on its stack; the harness
        # never calls that library itself, so a crash whose first stack is inside it (and has no harness frame) died
        # under an ice call too
        first = tail.split("\n\n", 2)[:2]
        block = "\n".join(first)
        if "github.com/klauspost/compress/zstd." in block and "\nmain." not in block:
            frames = [l.strip() for l in block.splitlines() if "klauspost/compress/zstd." in l][:4]
            return m.group(1) + " | (codec goroutine started under an ice call) " + " <- ".join(frames)
        return None
    # a panic raised by the harness itself (scenario refers to unknown handle, marshal error) is a machinery fault
    if m.group(1).startswith("panic: scenario") or m.group(1).startswith("panic: trace") or m.group(1).startswith("panic: unknown op"):
        return None
    frames = [l.strip() for l in tail.splitlines() if "blugelabs/ice/v2." in l][:6]
    return m.group(1) + " | " + " <- ".join(frames)


# ----------------------------------------------------------------------------------------
# TLC

TLCRUN = os.path.join(VERIF, "tools", "tlcrun.sh")
TRACE_END = re.compile(r'^<<"TRACE-END", (\d+), "(.*)">>\s*$')


def _tlc_trace_one(specdir, trace, cfg):
    """One trace through TLC. A JVM that died on a resource problem (several checks at once: out of memory,
    'unexpected exception' without an unexplained line) is started once more, alone, before it counts as a fault."""
    r = _tlc_trace_once(specdir, trace, cfg)
    if r.get("fault") and ("OutOfMemory" in r.get("raw", "") or "unexpected exception" in r.get("raw", "")
                           or "java.lang." in r.get("raw", "")) and "StackOverflowError" not in r.get("raw", ""):
        time.sleep(5)
        with _RETRY_LOCK:
            r = _tlc_trace_once(specdir, trace, cfg)
    r.pop("raw", None)
    return r


_RETRY_LOCK = threading.Lock()


def _tlc_trace_once(specdir, trace, cfg):
    out = trace + ".tlc.out"
    env = dict(os.environ, TRACE_FILE=trace)
    try:
        p = subprocess.run([TLCRUN, "trace", specdir, "Trace_API.tla", cfg], env=env, capture_output=True, text=True, timeout=3600)
    except subprocess.TimeoutExpired:
        return dict(trace=trace, fault="TLC timed out")
    text = p.stdout + p.stderr
    with open(out, "w") as f:
        f.write(text)
    res = dict(trace=trace, rc=p.returncode, viols=None, states=0, fault=None, out=out, raw=text[-20000:])
    for line in text.splitlines():
        m = TRACE_END.match(line)
        if m:
            raw = m.group(2)
            try:
                js = json.loads('"' + raw + '"')   # undo TLC's string escaping
                res["viols"] = json.loads(js)
            except Exception as ex:
                res["fault"] = "cannot parse TRACE-END payload: %s" % ex
        m2 = re.match(r"(\d+) states generated, (\d+) distinct states found", line)
        if m2:
            res["states"] = int(m2.group(2))
            res["generated"] = int(m2.group(1))
    if res["viols"] is None and res["fault"] is None:
        # TLC stopped before the end of the trace: a line no action explains, a TLC runtime error...
        tail = "\n".join([l for l in text.splitlines() if not l.startswith(("Semantic", "Linting", "Parsing"))][-25:])
        stuck = ""
        try:
            with open(trace) as f:
                lines = f.read().splitlines()
            first = 3 + json.loads(lines[0])["nbatch"]
            li = first - 1 + res["states"] - 1
            stuck = "\nfirst unexplained line %d: %s" % (li + 1, lines[li][:800])
        except Exception:
            pass
        res["fault"] = "trace not accepted by Trace_API (not a verdict):\n" + tail + stuck
    elif "No error has been found" not in text and res["fault"] is None:
        res["fault"] = "TLC reported an error after the end of the trace:\n" + "\n".join(text.splitlines()[-25:])
    return res


def validate_traces(ctx, traces, cfg="Trace_API.cfg"):
    """E3: every trace through Trace_API (collect mode). Returns list of (trace, viol)."""
    found = []
    if not traces:
        return found
    with cf.ThreadPoolExecutor(max_workers=NCPU) as ex:
        results = list(ex.map(lambda t: _tlc_trace_one(ctx.specdir, t, cfg), traces))
    for r in results:
        if r.get("fault"):
            raise Fault("%s: %s" % (r["trace"], r["fault"]))
        ctx.traces += 1
        ctx.states += r["states"]
        ctx.transitions += r.get("generated", r["states"])
        ctx.events += r["states"]
        for v in r["viols"]:
            found.append((r["trace"], v))
    return found


def tlc_mc(ctx, module, cfg, workers=None, extra=None, timeout=3600, expect_violation=None, simulate=None):
    """E1: exhaustive (or simulated) model checking of one module. Returns result dict.
    A TLC process that dies without a result (killed under memory pressure when several checks run at once)
    is started once more before the run counts as a machinery fault."""
    try:
        return _tlc_mc(ctx, module, cfg, workers, extra, timeout, expect_violation)
    except Fault as ex:
        if not str(ex).startswith("TLC failed on"):
            raise
        ctx.notes.append("TLC died on %s/%s and was started again" % (module, cfg))
        time.sleep(20)
        return _tlc_mc(ctx, module, cfg, workers, extra, timeout, expect_violation)


def _tlc_mc(ctx, module, cfg, workers, extra, timeout, expect_violation):
    args = [TLCRUN, "mc", ctx.specdir, module + ".tla", cfg, "-workers", str(workers or NCPU)]
    if extra:
        args += extra
    t0 = time.time()
    try:
        p = subprocess.run(args, capture_output=True, text=True, timeout=timeout)
    except subprocess.TimeoutExpired:
        raise Fault("TLC timed out on %s/%s" % (module, cfg))
    text = p.stdout + p.stderr
    with open(os.path.join(ctx.work, "mc-%s-%s.out" % (module, os.path.basename(cfg))), "w") as f:
        f.write(text)
    res = dict(module=module, cfg=cfg, wall_s=round(time.time() - t0, 1), states=0, distinct=0, violated=None, ok=False)
    for line in text.splitlines():
        m = re.match(r"(\d+) states generated, (\d+) distinct states found", line)
        if m:
            res["states"], res["distinct"] = int(m.group(1)), int(m.group(2))
        m = re.match(r"Error: Invariant (\S+) is violated", line)
        if m:
            res["violated"] = m.group(1)
        m = re.match(r"Error: Action property (\S+) is violated", line)
        if m:
            res["violated"] = m.group(1)
        if "Temporal properties were violated" in line:
            res["violated"] = "temporal"
        if line.startswith("Error: Deadlock reached"):
            res["violated"] = "deadlock"
    res["ok"] = "No error has been found" in text
    res["text"] = text
    if not res["ok"] and res["violated"] is None:
        raise Fault("TLC failed on %s/%s:\n%s" % (module, cfg, "\n".join(text.splitlines()[-30:])))
    if expect_violation is None and res["violated"]:
        # a design-level counterexample in a Level-I model is a candidate, not a verdict (DESIGN 2)
        raise Fault("model %s/%s violates %s on the current design: the model is out of date or the design is broken; "
                    "candidates must be reproduced on the real code before they count\n%s"
                    % (module, cfg, res["violated"], "\n".join(text.splitlines()[-40:])))
    if expect_violation is not None and res["violated"] is None:
        raise Fault("model %s/%s: the deviation no longer violates anything (expected %s)" % (module, cfg, expect_violation))
    if expect_violation is not None and res["violated"] != expect_violation:
        # several invariants of one configuration can fail in the same BFS level; which one a worker reports first
        # is a scheduling matter, so another invariant of the same model is accepted and noted
        ctx.notes.append("%s/%s: deviation reported %s (usually %s)" % (module, cfg, res["violated"], expect_violation))
    ctx.mc.append({k: v for k, v in res.items() if k != "text"})
    if expect_violation is None:
        ctx.states += res["distinct"]
        ctx.transitions += res["states"]
    return res


def tlc_emit(ctx, module, cfg, outfile, workers=1, extra=None, timeout=3600, marker="BEHAVIOUR"):
    """E2: run a generator module; collect the JSON payloads it prints (PrintT(<<marker, json>>))."""
    args = [TLCRUN, "mc", ctx.specdir, module + ".tla", cfg, "-workers", str(workers)]
    if extra:
        args += extra
    try:
        p = subprocess.run(args, capture_output=True, text=True, timeout=timeout)
    except subprocess.TimeoutExpired:
        raise Fault("TLC timed out on generator %s/%s" % (module, cfg))
    text = p.stdout + p.stderr
    pat = re.compile(r'^<<"%s", "(.*)">>\s*$' % marker)
    out = []
    for line in text.splitlines():
        m = pat.match(line)
        if m:
            out.append(json.loads(json.loads('"' + m.group(1) + '"')))
    if not out:
        raise Fault("generator %s/%s emitted nothing:\n%s" % (module, cfg, "\n".join(text.splitlines()[-30:])))
    m = re.search(r"(\d+) states generated, (\d+) distinct states found", text)
    if m:
        ctx.states += int(m.group(2))
        ctx.transitions += int(m.group(1))
    ctx.mc.append(dict(module=module, cfg=cfg, emitted=len(out)))
    # TLC evaluates the emitting invariant on every candidate successor, so consecutive payloads are one-step
    # variants of each other; a seeded shuffle keeps a truncated sample from being a few sibling families
    import random
    random.Random(ctx.seed).shuffle(out)
    with open(outfile, "w") as f:
        json.dump(out, f)
    return out


# ----------------------------------------------------------------------------------------
# scenario bookkeeping, violations, known findings

def load_known():
    p = os.path.join(VERIF, "known_findings.json")
    if not os.path.exists(p):
        return []
    with open(p) as f:
        return json.load(f).get("findings", [])


def nontrivial(sc):
    nterms = sum(len(fi.get("terms", [])) for b in sc.get("batches", []) for d in b for fi in d)
    return nterms >= 1 and len(sc.get("ops", [])) >= 2


def account_scenarios(ctx, scen_files):
    for sf in scen_files:
        with open(sf) as f:
            scs = json.load(f)
        for sc in scs:
            ctx.scenarios += 1
            body = json.dumps({k: sc[k] for k in sc if k != "name"}, sort_keys=True)
            h = hashlib.sha1(body.encode()).hexdigest()
            ctx.scen_hashes.add(h)
            if nontrivial(sc):
                ctx.nontrivial.add(h)
            if len(ctx.samples) < 2 and nontrivial(sc) and len(body) < 6000:
                ctx.samples.append(sc)


def scenario_of_line(trace, line_no):
    """index of the scenario (reset event) that contains 1-based line line_no"""
    idx = None
    with open(trace) as f:
        for i, line in enumerate(f, 1):
            if i > line_no:
                break
            if '"ev":"reset"' in line:
                try:
                    idx = json.loads(line)["index"]
                except Exception:
                    pass
    return idx


def trace_line(trace, line_no):
    with open(trace) as f:
        for i, line in enumerate(f, 1):
            if i == line_no:
                return json.loads(line)
    return None


def short(v, n=400):
    s = json.dumps(v, sort_keys=True)
    return s if len(s) <= n else s[:n] + "..."


def record_violation(ctx, props, what, replay_obj):
    rdir = os.path.join(VERIF, "evidence", "replay") if REPO == "/repo" else os.path.join(VERIF, ".work", "replay-scratch")
    os.makedirs(rdir, exist_ok=True)
    ctx.replay_n += 1
    path = os.path.join(rdir, "%s-%d-%d.json" % (ctx.prop, ctx.seed, ctx.replay_n))
    with open(path, "w") as f:
        json.dump(replay_obj, f)
    pid = ctx.prop if ctx.prop in props else sorted(props)[0]
    ctx.violations.append(dict(prop=pid, props=sorted(props), what=what, replay=path))
    return path


def match_known(known, props, sig):
    for k in known:
        if k.get("status") != "open":
            continue
        if k["property"] in props and re.search(k["signature"], sig):
            return k
    return None


def handle_trace_viols(ctx, found, max_report=5):
    """Turn Trace_API contradictions into VIOLATION / KNOWN-FINDING records."""
    known = load_known()
    seen = set()
    for trace, v in found:
        props = set(v["bad"])
        if "GEN" in props:
            # the two levels of the specification disagree, or a generator left the input contract:
            # the machinery is at fault, nothing is reported about ice
            raise Fault("generator/specification inconsistency (GEN) at %s line %d: %s" % (trace, v["l"], short(v, 600)))
        ev = trace_line(trace, v["l"])
        sig = "%s %s" % (v["ev"], short(dict(event=ev, exp=v.get("exp")), 2000))
        k = match_known(known, props, sig)
        if k:
            ctx.known_hits.append((k, sig))
            continue
        key = (tuple(sorted(props)), v["ev"])
        if key in seen and len(ctx.violations) >= max_report:
            continue
        seen.add(key)
        scen_file = trace[:-len(".ndjson")] + ".json"
        idx = scenario_of_line(trace, v["l"])
        scen = None
        if os.path.exists(scen_file) and idx is not None:
            with open(scen_file) as f:
                scen = json.load(f)[idx]
        got = v.get("got")
        if isinstance(got, dict) and got.get("kind") == "blocked" and scen is not None:
            # a call that did not return within the watchdog: re-run the scenario alone with 6x the
            # timeouts; only a reproduced "blocked" counts (CPU starvation is not a violation)
            if getattr(ctx, "blocked_confirmed", False):
                pass            # one reproduced hang is enough; the others are reported without re-running
            elif confirm_blocked(ctx, scen):
                ctx.blocked_confirmed = True
            else:
                ctx.notes.append("a 'blocked' observation did not reproduce in isolation (ignored): %s" % scen.get("name"))
                continue
        what = "event %s at trace line %d: expected %s, got %s" % (v["ev"], v["l"], short(v.get("exp")), short(v.get("got")))
        record_violation(ctx, props, what, dict(kind="scenario", property=sorted(props), scenario=scen, event=ev,
                                              expected=v.get("exp"), got=v.get("got")))


def confirm_blocked(ctx, scen):
    d = ctx.sub("confirm-%d" % (len(os.listdir(ctx.work))))
    src = os.path.join(d, "in.json")
    with open(src, "w") as f:
        json.dump([scen], f)
    try:
        run_icex(ctx, ["runfile", src, d, "c", 1], env_extra={"VERIF_WATCHDOG_SCALE": "6"})
    except Crashed:
        return True
    for t in glob.glob(os.path.join(d, "*.ndjson")):
        if '"kind":"blocked"' in open(t).read():
            return True
    return False


def run_family(ctx, family, n, perfile=20, seed_off=0, race=False, env_extra=None):
    """Go random driver -> scenarios -> real code -> traces -> TLC."""
    out = ctx.sub("fam-%s-%d" % (family, seed_off))
    try:
        run_icex(ctx, ["genrun", family, ctx.seed * 1000 + seed_off, n, out, perfile], race=race, env_extra=env_extra,
                 timeout=1200 if ctx.quick else 3000)       # thorough tiers run one executor process over up to thousands of scenarios
    except Crashed:
        ctx.log("%s: executor crashed inside ice (recorded as violation); its partial traces are not validated" % family)
        return []
    return finish_dir(ctx, out, family)


def finish_dir(ctx, out, label):
    traces = sorted(glob.glob(os.path.join(out, "*.ndjson")))
    account_scenarios(ctx, sorted(glob.glob(os.path.join(out, "*-[0-9][0-9][0-9][0-9].json"))))
    for c in glob.glob(os.path.join(out, "*.cov.json")):
        with open(c) as f:
            for k, v in json.load(f).items():
                ctx.cov[k] = ctx.cov.get(k, 0) + v
    found = validate_traces(ctx, traces)
    handle_trace_viols(ctx, found)
    ctx.log("%s: %d traces, %d contradictions" % (label, len(traces), len(found)))
    return found


def run_scenarios(ctx, scs, label, perfile=20, shards=1, env_extra=None):
    """Execute given scenarios (e.g. lifted from TLC behaviours) and validate their traces.
    shards > 1 runs several executor processes side by side (schedules with waits)."""
    out = ctx.sub("sc-" + label)
    shards = max(1, min(shards, len(scs)))
    jobs = []
    for k in range(shards):
        part = scs[k::shards]
        src = os.path.join(out, "in-%d.json" % k)
        with open(src, "w") as f:
            json.dump(part, f)
        jobs.append(["runfile", src, out, "%s%d" % (label, k), perfile])
    try:
        if shards == 1:
            run_icex(ctx, jobs[0], env_extra=env_extra)
        else:
            with cf.ThreadPoolExecutor(max_workers=NCPU) as ex:
                list(ex.map(lambda j: run_icex(ctx, j, env_extra=env_extra), jobs))
    except Crashed:
        ctx.log("%s: executor crashed inside ice (recorded as violation); its partial traces are not validated" % label)
        return []
    return finish_dir(ctx, out, label)


def require_cov(ctx, *keys):
    """coverage obligations (DESIGN Appendix A): a run that did not reach them is vacuous -> exit 2"""
    missing = [k for k in keys if ctx.cov.get(k, 0) <= 0]
    if missing:
        raise Fault("coverage obligation not met (vacuous run): %s; have %s" % (missing, sorted(ctx.cov)))


# ----------------------------------------------------------------------------------------
# canary: the binding must reject a corrupted trace

def canary(ctx):
    """Corrupt one recorded field of a real trace and demand that Trace_API contradicts it."""
    traces = sorted(glob.glob(os.path.join(ctx.work, "*", "*.ndjson")))
    for t in traces:
        lines = open(t).read().splitlines()
        for i, line in enumerate(lines):
            if '"ev":"it_next"' in line and '"kind":"hit"' in line:
                ev = json.loads(line)
                ev["res"]["doc"] = ev["res"]["doc"] + 1
                lines[i] = json.dumps(ev)
                ct = os.path.join(ctx.sub("canary"), "canary.ndjson")
                with open(ct, "w") as f:
                    f.write("\n".join(lines) + "\n")
                r = _tlc_trace_one(ctx.specdir, ct, "Trace_API.cfg")
                if r.get("fault"):
                    raise Fault("canary: " + r["fault"])
                if not any(v["l"] == i + 1 for v in r["viols"]):
                    raise Fault("canary: a corrupted posting in line %d of %s was accepted by Trace_API" % (i + 1, t))
                ctx.notes.append("canary: corrupted it_next result rejected at line %d" % (i + 1))
                return True
    return False


# ----------------------------------------------------------------------------------------
# evidence

def write_evidence(ctx, level, rule, explanation=None, exhaustive=False):
    os.makedirs(os.path.join(VERIF, "evidence"), exist_ok=True)
    samples = ctx.samples[:2] if ctx.samples else [dict(note="see mc results", mc=ctx.mc[:2])]
    cov = dict(
        evaluations=max(ctx.scenarios, 0),
        distinct_nontrivial=len(ctx.nontrivial),
        rule=rule,
        samples=samples,
        states=ctx.states,
        transitions=ctx.transitions,
        traces_validated_against_impl=ctx.traces,
        events_validated=ctx.events,
        model_checking=ctx.mc,
        obligations_met=ctx.cov,
        notes=ctx.notes,
        exhaustive=exhaustive,
    )
    if explanation:
        cov["explanation"] = explanation
    ev = dict(property_id=ctx.prop, tier=ctx.tier, seed=ctx.seed, level=level, coverage=cov,
              assumptions=ctx.assumptions, wall_s=round(time.time() - ctx.t0, 1),
              violations=len(ctx.violations), known_findings=len(ctx.known_hits))
    # runs against a scratch copy (seeded-change evaluation) do not overwrite the committed evidence
    dst = os.path.join(VERIF, "evidence", ctx.prop + ".json") if REPO == "/repo" else os.path.join(ctx.work, "evidence.json")
    with open(dst, "w") as f:
        json.dump(ev, f, indent=1)


# ----------------------------------------------------------------------------------------

def finish(ctx, level="model_checking", rule="", exhaustive=False):
    printed = set()
    for k, sig in ctx.known_hits:
        key = (k["property"], k["signature"])
        if key in printed:
            continue
        printed.add(key)
        print("KNOWN-FINDING: property=%s %s" % (k["property"], k["description"]))
    # contradictions of the property under check first; what the same executions show about other
    # properties is reported after them, under its own id
    for v in sorted(ctx.violations, key=lambda v: v["prop"] != ctx.prop):
        print("VIOLATION property=%s replay=%s" % (v["prop"], v["replay"]))
        print("  " + v["what"][:1500])
    write_evidence(ctx, level, rule, exhaustive=exhaustive)
    return 1 if ctx.violations else 0


def main(argv):
    ap = argparse.ArgumentParser()
    ap.add_argument("prop")
    ap.add_argument("--tier", default=os.environ.get("VERIF_TIER", "quick"), choices=["quick", "thorough"])
    ap.add_argument("--seed", type=int, default=int(os.environ.get("VERIF_SEED", "1")))
    ap.add_argument("--replay")
    ap.add_argument("--keep", action="store_true")
    a = ap.parse_args(argv)
    import plans
    if a.prop not in plans.PLANS:
        print("unknown property", a.prop, file=sys.stderr)
        return 2
    ctx = Ctx(a.prop, a.tier, a.seed, a.keep)
    try:
        build_harness(ctx)
        if a.replay:
            rc = plans.replay(ctx, a.replay)
        else:
            plans.PLANS[a.prop](ctx)
            rc = finish(ctx, *plans.LEVELS.get(a.prop, ("model_checking", "")))
        return rc
    except Fault as ex:
        print("MACHINERY-FAULT property=%s: %s" % (a.prop, ex), file=sys.stderr)
        return 2
    except Exception:
        traceback.print_exc()
        print("MACHINERY-FAULT property=%s: internal error" % a.prop, file=sys.stderr)
        return 2
    finally:
        ctx.cleanup()
