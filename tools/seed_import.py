#!/usr/bin/env python3
"""seed_import.py <worktree> <id> <caught_by> <note>: copies a confirmed seeded change into /verif/seeded/<id>/"""
import json, os, shutil, subprocess, sys
wt, sid, caught, note = sys.argv[1:5]
dst = os.path.join("/verif/seeded", sid)
os.makedirs(dst, exist_ok=True)
shutil.copy(os.path.join(wt, "_out/patch.diff"), os.path.join(dst, "patch.diff"))
shutil.copy(os.path.join(wt, "_out/zz_demo_test.go"), os.path.join(dst, "zz_demo_test.go.txt"))
meta = json.load(open(os.path.join(wt, "_out/meta.json")))
conf = subprocess.run(["/verif/tools/mutant_confirm.sh", wt], capture_output=True, text=True).stdout.strip()
meta.update({"id": sid, "breaks": meta.get("property"), "confirmed_by_me": conf,
             "confirm_cmd": "tools/mutant_confirm.sh <scratch worktree> (go build; go test -skip TestSeededDemo ./...; TestSeededDemo with / without the patch)",
             "caught_by": caught.split(","), "note": note,
             "base_commit": subprocess.run(["git", "-C", "/repo", "log", "--format=%h", "-1"], capture_output=True, text=True).stdout.strip()})
json.dump(meta, open(os.path.join(dst, "meta.json"), "w"), indent=1)
print(sid, conf)
