#!/bin/sh
# usage: seeded_regress.sh [tier]   -- every seeded change under /verif/seeded must be caught by its property's check.
# Works on scratch worktrees of /repo under /tmp (removed afterwards); /repo itself is not touched.
tier=${1:-quick}
cd /verif
fail=0
for d in seeded/*/; do
  id=$(basename "$d"); prop=${id%%-*}
  wt=/tmp/seedreg-$id-$$
  git -C /repo worktree add -q --detach "$wt" HEAD || { echo "$id: cannot create worktree"; fail=1; continue; }
  if ! git -C "$wt" apply "$PWD/$d/patch.diff"; then echo "$id: patch does not apply (base moved)"; git -C /repo worktree remove --force "$wt"; continue; fi
  out=$(VERIF_REPO=$wt ./check "$prop" --tier "$tier" 2>/dev/null); rc=$?
  nv=$(printf '%s\n' "$out" | grep -c '^VIOLATION')
  echo "$id: rc=$rc violations=$nv"
  [ $rc -eq 1 ] || fail=1
  git -C /repo worktree remove --force "$wt"
done
git -C /repo worktree prune
exit $fail
