#!/bin/sh
# usage: mutant_eval2.sh <worktree with _out/patch.diff> <tier> <prop> [prop...]
# Confirms the seeded change in its own worktree, then runs the named checks against that worktree
# (VERIF_REPO), so /repo and the committed evidence stay untouched.
wt=$1; tier=$2; shift 2
/verif/tools/mutant_confirm.sh "$wt" || exit 2
cd /verif
for p in "$@"; do
  out=$(VERIF_REPO=$wt ./check "$p" --tier "$tier" 2>/tmp/mutant_eval2.$$.err); rc=$?
  nv=$(printf '%s\n' "$out" | grep -c '^VIOLATION')
  first=$(printf '%s\n' "$out" | grep -m1 -A1 '^VIOLATION' | tr '\n' ' ' | cut -c1-260)
  echo "$p rc=$rc violations=$nv $first"
  if [ $rc -eq 2 ]; then tail -4 /tmp/mutant_eval2.$$.err | cut -c1-400; fi
done
rm -f /tmp/mutant_eval2.$$.err
