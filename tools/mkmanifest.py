#!/usr/bin/env python3
"""Regenerates /verif/MANIFEST.json from the tables below (single source of truth for the interface)."""
import json, os, subprocess
V = os.path.dirname(os.path.dirname(os.path.abspath(__file__)))

TECH = "TLA+ model-based: TLC model checking of Level-I models (E1), TLC-emitted behaviours replayed on the real code (E2), TLC trace validation of recorded executions against the Level-A specification (E3)"

CHECKS = {
 "C01": ("Every event of randomized and TLC-enumerated build scenarios (all chunk modes via the verif hook, repeated fields, composite locations, empty/binary terms, multi-chunk terms) is validated by TLC against IceData!Build: the whole observation (field list, every dictionary, every posting with freq/norm/locations, for every term the dictionary lists plus the vocabulary) must equal the specification's.",
         "Bounded/sampled inputs; oracle is the TLA+ specification evaluated by TLC; harness instantiation/projection code trusted (guarded by canary and metamorphic checks)."),
 "C02": ("Merges of built, loaded and previously merged segments with random deletion sets, differing field sets and chunk modes are executed on the real merger; the loaded output's full observation is validated by TLC against IceData!Merge (= rebuilding the survivors).",
         "Bounded/sampled merge configurations; dv flags consistent by field name within a scenario (DESIGN 5)."),
 "C03": ("Every merge event carries DocumentNumbers(); TLC compares it with IceData!DocNumMap (shape, dropped sentinel, consecutive numbering) and Count with the number of survivors, including zero-document inputs and zero-survivor merges; content at the reported numbers is covered by the full observation of the merged segment.",
         "Same scope as C02."),
 "C04": ("Every segment produced (built, merged, merged-of-merged, empty batch, zero survivors) is persisted and loaded memory-backed and file-backed; TLC validates the loaded segments' full observations against the source content, that no call errs or panics, and that WriteTo's byte count equals the bytes received.",
         "Sampled shapes including degenerate ones."),
 "C05": ("E1: TLC explores every reachable state of the transcribed iterator (all postings sets, location flags, exclusion sets, chunk sizes, flag classes, 1-hit, ReplaceActual; all Next/Advance sequences) for N=4 (quick) / N=5 (thorough) and checks refinement of IceData!IterAdvance and stream alignment; named deviations must violate. E2: behaviours emitted by the model are replayed on real postings lists; E3: all steps validated against Level A, incl. adaptive-mode lists with >=1024 postings.",
         "Model is a transcription of posting.go (bounded N); real-code binding through replayed behaviours and random walks."),
 "C06": ("Stored-field visits for every document number (incl. n >= Count), stop-after-k visitors, repeated/empty/absent stored fields, built/loaded/merged segments, and a byte-size sweep of the second 128-document block around the first block's size with a minimal last record; all judged by TLC against IceData!StoredOf.",
         "Sampled batches; the size sweep covers deltas -10..+29 bytes."),
 "C07": ("Doc-value readers opened on arbitrary field subsets/orders are driven over small and >1024/>2048-document segments in arbitrary visiting orders (boundary ping-pong), on built and merged segments incl. inputs where only some segments have doc values; TLC judges every visit against IceData!DocValuesOf.",
         "dv flags consistent by field name within a scenario."),
 "C08": ("Dictionary enumeration with ranges (nil/non-empty bounds, start<=end), prefix/one-of/all/none automata, entry counts, Contains and PostingsList on built and merged segments, known and unknown fields; TLC compares with IceData!DictRange/TermCount.",
         "Sampled vocabularies including empty and binary terms."),
 "C09": ("Forced interleavings of 2-3 readers at the gate points (after block decompression, inside the FST critical section, in every visitor callback) incl. nested visits, free-running goroutine groups with a concurrent merge, and the same mixes under the Go race detector; every observation is judged by TLC against Level A (segments are immutable, so each has a history-independent expected value) and any race report inside ice is a violation.",
         "Race freedom relies on the Go race detector over the explored executions; schedules are sampled."),
 "C10": ("Files written by the current code are read by the frozen pinned reference reader and vice versa (builder and merger output); each reader's full observation is validated by TLC against the source content, and an independent walk of the bytes (footer, stored-section trailer, block and chunk counts, zstd magic) is validated against the format constants of the specification.",
         "The reference copy has the pinned defects, so it is only driven where it is itself correct (no entry counts from the reference reader, no statistics of reference-merged files, no repeated field names / zero-survivor merges for the reference writer)."),
 "C11": ("For every file any run produces (built, merged, loaded-and-re-persisted, twice) the harness parses the 44-byte footer itself and recomputes CRC-32(IEEE) with hash/crc32; TLC checks stored CRC = recomputed, footer numDocs/version/chunkMode = content/segment-reported values, returned byte count = bytes written, and byte-identity of re-persisted loaded segments.",
         "CRC recomputation by the Go standard library."),
 "C12": ("Complete fault enumeration on the real code: for each workload every byte offset at which the writer starts failing x buffer sizes {1,16,64,4096,default} for Merger.WriteTo and Segment.WriteTo, and every close point (bytes written when the channel closes, incl. before the call); TLC judges every outcome (error required when the writer failed; success only with the complete fault-free file; closed => ErrClosed or complete).",
         "Workloads are small random merges/persists plus a file-backed segment of several 64 KiB pieces; also exact-fit merge buffers, one-shot write failures and a second WriteTo on the same Merger; the fault-free file is itself validated against Level A. E1: WriterFaults model."),
 "C13": ("Histories of lookups that pass earlier postings lists/iterators as prealloc, reuse dictionaries, dictionary iterators and doc-value readers across terms, encodings (1-hit/general) and segments (built, loaded, merged); TLC validates every result against Level A, which is independent of the prealloc choice.",
         "Ownership contract: objects derived from a reused list are dead (DESIGN 5); objects the code recycles on its own get alias handles, so interference between iterations shows as a contradiction. Includes Close(), iterators travelling between twin segments, pooled stored-field scratch contexts (CtxReader model)."),
 "C14": ("Sequences of builds on the recycled builder (larger->smaller, dv->no-dv, failing builds) and concurrent builders; the specification requires equal bytes for equal (batch, norm, mode) across the whole trace, with cold-pool builds as reference; pool reuse is measured by a probe; also under the race detector.",
         "sync.Pool behaviour is not controlled; reuse is measured and required > 0. Process-wide state is reached by building the same batch in fresh child processes with different first builds; wide schemas and > 10 000-term vocabularies included."),
 "C15": ("After every operation of histories of reads, persists and merges (caller-owned deletion bitmaps, exclusion bitmaps) the harness re-digests every live segment (full observation + persisted bytes) and every caller bitmap (membership + serialised form); TLC requires each digest to equal the one recorded first.",
         "Digest = SHA-256 of the canonical observation; an in-place RunOptimize of a caller bitmap changes its serialised form."),
 "C16": ("CollectionStats of every known and unknown field of built, loaded and merged segments (len = sum of frequencies, as C16 assumes) and CollectionStats.Merge are validated by TLC against IceData!Stats/StatsAdd.",
         "Generator keeps Length() = sum of term frequencies for judged scenarios."),
 "C17": ("For random input lists and deletion sets the real code performs the merge all at once, as an order-preserving grouping, with the left group's deletions applied later through the reported document-number map, and the identity merge; all outputs are validated against Level A and their observation digests must be equal whenever Level A cannot tell the contents apart.",
         "Metamorphic + oracle; bytes are not compared (only observations)."),
 "C18": ("DocsMatchingTerms with lists of known/unknown/empty-named fields, present/absent/1-hit terms, repeats and field switches on built, loaded and merged segments; TLC compares with IceData!Matching.",
         "Sampled and structured lists (repeats, prefix-related field names, the same unknown field twice, 1-hit terms with odd norm bits), also on failing storage and after Dictionary.Close."),
 "C19": ("File-backed segments whose file is closed at every position of a generated read sequence, also exactly inside the FST critical section (gate hook); every later call must return within the watchdog without panic and yield an error, an empty result or the correct result (TLC: IceAPI!Judge with failed storage), also as merge input and persist source.",
         "Storage faults: the file is closed between calls or inside the FST critical section; a counting ReaderAt under the segment data fails after N more reads for good or for one read only (every read of a load enumerated); also while a merge runs. E1: FstCache and DvReader models with failure points."),
}


def main():
    hooks = subprocess.run(["git", "-C", "/repo", "log", "--format=%h", "--grep=verif hooks"], capture_output=True, text=True).stdout.split()
    m = {
        "version": 1,
        "setup_cmd": "cd /verif && ./tools/setup.sh",
        "hooks": {
            "guard": "verif",
            "enable": "go build -tags verif (the harness module /verif/harness replaces github.com/blugelabs/ice/v2 with /repo)",
            "baseline_off_cmd": "cd /repo && GOFLAGS=-mod=mod GOPROXY=off GOSUMDB=off go test -vet=off -count=1 ./...",
            "source_commits": hooks,
            "add_only": True,
        },
        "engines": [
            {"name": "tlc-mc", "path": "spec/*.tla + tools/tlcrun.sh", "serves_properties": sorted(CHECKS), "kind_free_text": "E1: TLC exhaustive model checking of Level-I modules against Level A"},
            {"name": "mbt-replay", "path": "tools/lift.py + harness/", "serves_properties": sorted(CHECKS), "kind_free_text": "E2: TLC-emitted behaviours replayed on the real code"},
            {"name": "trace-validate", "path": "spec/Trace_API.tla", "serves_properties": sorted(CHECKS), "kind_free_text": "E3: ndjson traces of real executions validated by TLC against IceAPI/IceData"},
        ],
        "checks": [],
        "notes": "See DESIGN.md. Exit 2 = machinery fault (never a violation). known_findings.json lists fixed defects only.",
        "not_applicable": [],
    }
    for pid in sorted(CHECKS):
        text, note = CHECKS[pid]
        m["checks"].append({
            "property_id": pid,
            "quick_cmd": "./check %s --tier quick" % pid,
            "thorough_cmd": "./check %s --tier thorough" % pid,
            "evidence_file": "/verif/evidence/%s.json" % pid,
            "replay_cmd_template": "./check %s --replay {path}" % pid,
            "engine": "tlc-mc + mbt-replay + trace-validate",
            "level_claimed": {"category": "model_checking", "text": text, "design_ref": "DESIGN.md section 6, " + pid},
            "level_note": note,
            "technique": TECH,
        })
    with open(os.path.join(V, "MANIFEST.json"), "w") as f:
        json.dump(m, f, indent=1)


if __name__ == "__main__":
    main()
