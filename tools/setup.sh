#!/bin/sh
# Offline setup: warm the Go build cache for the executor (normal and race builds) from files on disk.
set -e
cd "$(dirname "$0")/../harness"
export GOFLAGS=-mod=mod GOPROXY=off GOSUMDB=off GOTOOLCHAIN=local
[ -f go.sum ] || cp /repo/go.sum go.sum
mkdir -p ../bin
go build -tags verif -o ../bin/icex .
go build -race -tags verif -o ../bin/icex-race . || echo "warning: race build unavailable" >&2
mkdir -p ../evidence ../.work
echo setup ok
