package main

// Concurrency and fault drivers:
//   par    - free-running goroutine groups on shared segments (race pass, C09/C14)
//   sched  - processes released step by step at gate points, following a schedule that
//            TLC emitted from the StoredRead / FstCache models (C09)
//   wfaults- complete enumeration of writer failure offsets and close points (C12)
//   arm_gate_close - storage failure injected inside the FST critical section (C19)

import (
	"bytes"
	"fmt"
	"io"
	"runtime"
	"strconv"
	"sync"
	"time"

	"github.com/RoaringBitmap/roaring"
	segment "github.com/blugelabs/bluge_segment_api"
	ice "github.com/blugelabs/ice/v2"
)

func curGID() uint64 {
	var buf [64]byte
	n := runtime.Stack(buf[:], false)
	// "goroutine 123 ["
	s := buf[len("goroutine "):n]
	i := bytes.IndexByte(s, ' ')
	id, _ := strconv.ParseUint(string(s[:i]), 10, 64)
	return id
}

// child returns an environment for one goroutine: shared segments/files/bitmaps,
// private reusable objects.
func (e *Env) child(g int) *Env {
	c := *e
	c.g = g
	c.inline = true
	c.pls = map[int]segment.PostingsList{}
	c.its = map[int]segment.PostingsIterator{}
	c.dvrs = map[int]segment.DocumentValueReader{}
	c.dvrSeg = map[int]int{}
	c.dits = map[int]segment.DictionaryIterator{}
	c.objIDs = map[interface{}]int{}
	c.itFlags = map[int]itFlags{}
	c.cov = map[string]int{}
	c.nextObj = 1000000 + g*1000000
	c.keybuf = nil // every goroutine is its own caller with its own key buffer
	c.fieldLists = nil
	c.ditLast = map[int]*keptEntry{}
	c.retFields, c.retDocNums = nil, nil
	c.statObjs = nil
	return &c
}

var segMu sync.RWMutex

// ---------------------------------------------------------------------------
// par

func (e *Env) doPar(op *Op) {
	e.emit(M{"ev": "par_begin", "groups": len(op.Groups)})
	var wg sync.WaitGroup
	stuck := make([]bool, len(op.Groups))
	for gi := range op.Groups {
		wg.Add(1)
		go func(gi int) {
			defer wg.Done()
			c := e.child(gi + 1)
			done := make(chan struct{})
			go func() {
				defer close(done)
				c.Run(op.Groups[gi])
			}()
			select {
			case <-done:
			case <-time.After(5 * e.watchdog):
				stuck[gi] = true
			}
		}(gi)
	}
	wg.Wait()
	nstuck := 0
	for _, s := range stuck {
		if s {
			nstuck++
		}
	}
	e.emit(M{"ev": "par_end", "stuck": nstuck})
}

// ---------------------------------------------------------------------------
// sched

type proc struct {
	id       int
	release  chan struct{}
	arrive   chan string
	finished chan struct{}
	done     bool
	running  bool // released and not yet back at a gate (e.g. waiting for a mutex)
}

type scheduler struct {
	mu    sync.Mutex
	byGID map[uint64]*proc
}

var curSched *scheduler

func (s *scheduler) gate(point string) {
	s.mu.Lock()
	p := s.byGID[curGID()]
	s.mu.Unlock()
	if p == nil {
		return
	}
	p.arrive <- point
	<-p.release
}

func (e *Env) doSched(op *Op) {
	s := &scheduler{byGID: map[uint64]*proc{}}
	curSched = s
	ice.VerifSetGate(s.gate)
	defer func() {
		ice.VerifSetGate(nil)
		curSched = nil
	}()
	procs := make([]*proc, len(op.Groups))
	for i := range op.Groups {
		p := &proc{id: i + 1, release: make(chan struct{}), arrive: make(chan string), finished: make(chan struct{})}
		procs[i] = p
		c := e.child(i + 1)
		c.sched = s
		ops := op.Groups[i]
		go func() {
			s.mu.Lock()
			s.byGID[curGID()] = p
			s.mu.Unlock()
			p.arrive <- "start"
			<-p.release
			for k := range ops {
				if k > 0 {
					s.gate("op") // every operation boundary is a scheduling point
				}
				c.Do(&ops[k])
			}
			close(p.finished)
		}()
		<-p.arrive // parked at "start"
	}
	steps := []M{}
	wait := func(p *proc) string {
		select {
		case pt := <-p.arrive:
			p.running = false
			return pt
		case <-p.finished:
			p.done, p.running = true, false
			return "done"
		case <-time.After(120 * time.Millisecond):
			p.running = true
			return "waiting" // blocked on a lock held by a paused process (or really stuck)
		}
	}
	step := func(p *proc) {
		if p.done {
			return
		}
		if !p.running {
			p.release <- struct{}{}
		}
		steps = append(steps, M{"p": p.id, "at": wait(p)})
	}
	for _, pid := range op.Schedule {
		if pid >= 1 && pid <= len(procs) {
			step(procs[pid-1])
		} else if pid == 0 && op.Seg != 0 {
			// the storage of the segment starts failing at this point of the schedule
			if h := e.segs[op.Seg]; h != nil && h.file != nil {
				h.file.Close()
				e.emit(M{"ev": "close_file", "seg": op.Seg, "how": "schedule"})
			}
		}
	}
	// drain: run everything to completion round robin (bounded)
	dl := e.watchdog
	if dl < 10*time.Second {
		dl = 10 * time.Second // generous: a slow machine must not look like a stuck process
	}
	deadline := time.Now().Add(dl)
	for time.Now().Before(deadline) {
		all := true
		for _, p := range procs {
			if !p.done {
				all = false
				step(p)
			}
		}
		if all {
			break
		}
	}
	stuck := 0
	for _, p := range procs {
		if !p.done {
			stuck++
		}
	}
	e.emit(M{"ev": "sched_end", "steps": steps, "stuck": stuck})
}

// cbGate is called from visitor callbacks of scheduled processes: callbacks are gate points.
func (e *Env) cbGate() {
	if e.sched != nil {
		e.sched.gate("cb")
	}
}

// ---------------------------------------------------------------------------
// arm_gate_close: the next time the FST of a field is loaded (inside the critical section)
// the file of the segment is closed first, so the read under the lock fails.

func (e *Env) doArmGateClose(op *Op) {
	h := e.seg(op.Seg)
	armed := true
	ice.VerifSetGate(func(point string) {
		if armed && point == "fst:load" && h.file != nil {
			armed = false
			h.file.Close()
		}
	})
	e.gateArmed = true
	e.emit(M{"ev": "close_file", "seg": op.Seg, "how": "inside fst:load"})
}

// ---------------------------------------------------------------------------
// wfaults

type faultWriter struct {
	eof     bool // fail with io.EOF instead of the injected error value
	full    bool // with once: the failing call accepts ALL its bytes and still returns the error (io.Writer allows n == len(p) with err != nil)
	once    int // >= 0: the single Write call that would carry byte `once` fails (accepting nothing), later ones succeed
	onceHit bool
	limit   int // bytes accepted before failing; -1 = never fail
	n       int
	buf     bytes.Buffer
	closeAt int // close the channel once n >= closeAt; -1 = never
	ch      chan struct{}
	closed  bool
}

var errInjected = fmt.Errorf("injected write failure")

// the error VALUE a destination fails with is the destination's business: a pipe whose reader went away or a quota
// writer may well say io.EOF
func (w *faultWriter) failure() error {
	if w.eof {
		return io.EOF
	}
	return errInjected
}

func (w *faultWriter) Write(p []byte) (int, error) {
	if w.once >= 0 && !w.onceHit && w.n+len(p) > w.once {
		w.onceHit = true
		if w.full {
			w.buf.Write(p)
			w.n += len(p)
			return len(p), w.failure()
		}
		return 0, w.failure()
	}
	if w.limit >= 0 && w.n+len(p) > w.limit {
		k := w.limit - w.n
		if k < 0 {
			k = 0
		}
		w.buf.Write(p[:k])
		w.n += k
		return k, w.failure()
	}
	w.buf.Write(p)
	w.n += len(p)
	if w.closeAt >= 0 && !w.closed && w.n >= w.closeAt {
		w.closed = true
		close(w.ch)
	}
	return len(p), nil
}

// a destination that can also be synced (like *os.File): Sync succeeds - what failed was a Write
type syncFaultWriter struct{ *faultWriter }

func (w syncFaultWriter) Sync() error { return nil }

func (e *Env) doWFaults(op *Op) {
	impl := implCur
	var segs []segment.Segment
	var drops []*roaring.Bitmap
	kind := "merge"
	if len(op.In) == 0 {
		kind = "persist"
	}
	mk := func(buf int) func(w io.Writer, ch chan struct{}) (int64, error) {
		if kind == "persist" {
			s := e.seg(op.Seg).seg
			return func(w io.Writer, ch chan struct{}) (int64, error) { return s.WriteTo(w, ch) }
		}
		return func(w io.Writer, ch chan struct{}) (int64, error) {
			var m segment.Merger
			if op.Mode == 0 {
				m = impl.Merge(segs, drops, buf)
			} else {
				m = impl.MergeM(segs, drops, buf, op.Mode)
			}
			return m.WriteTo(w, ch)
		}
	}
	// the same Merger object used twice: a complete first WriteTo, then a second one into a writer that fails at
	// byte k (k > L: does not fail) - the second call must report what happened to ITS destination
	mkRetry := func(buf int) func(w io.Writer, ch chan struct{}) (int64, error) {
		return func(w io.Writer, ch chan struct{}) (int64, error) {
			var m segment.Merger
			if op.Mode == 0 {
				m = impl.Merge(segs, drops, buf)
			} else {
				m = impl.MergeM(segs, drops, buf, op.Mode)
			}
			first := &faultWriter{once: -1, limit: -1, closeAt: -1}
			if _, err := m.WriteTo(first, make(chan struct{})); err != nil {
				return 0, fmt.Errorf("first WriteTo failed: %v", err)
			}
			return m.WriteTo(w, ch)
		}
	}
	dropsEv := []M{}
	if kind == "merge" {
		for i, h := range op.In {
			segs = append(segs, e.seg(h).seg)
			var d *DropSpec
			if i < len(op.Drops) {
				d = &op.Drops[i]
			}
			drops = append(drops, e.bitmapOf(d))
			dropsEv = append(dropsEv, e.dropEv(d))
		}
	}
	bufs := op.Bufs
	if len(bufs) == 0 || kind == "persist" {
		bufs = []int{0}
	}
	var full0 []byte
	for bi := 0; bi < len(bufs); bi++ {
		buf := bufs[bi]
		run := mk(buf)
		// fault-free reference
		ref := &faultWriter{once: -1, limit: -1, closeAt: -1}
		var rn int64
		var rerr error
		cl := e.call(func() { rn, rerr = run(ref, make(chan struct{})) })
		if cl != "" || rerr != nil {
			e.emit(M{"ev": "wfault", "kind": kind, "buf": buf, "mode": "none", "L": -1, "outcomes": [][]interface{}{},
				"res": resKind(cl, rerr)})
			continue
		}
		full := append([]byte{}, ref.buf.Bytes()...)
		L := len(full)
		_ = rn
		if full0 == nil {
			full0 = full
			if kind == "merge" && len(op.Bufs) > 0 {
				// merge buffers that the file fills exactly (the last byte lands on the buffer's end), and one off
				bufs = append(bufs, L, L-1, L+1)
				if L%2 == 0 {
					bufs = append(bufs, L/2)
				}
			}
		} else if !bytes.Equal(full, full0) {
			// the fault-free file must not depend on the merge buffer size: report it as a write that was supposed
			// to succeed (no fault) and did not deliver the complete file
			e.emit(M{"ev": "wfault", "kind": kind, "buf": buf, "mode": "fail", "L": len(full0), "in": op.In, "drops": dropsEv,
				"outcomes": [][]interface{}{{len(full0) + 1, "nil", len(full), false, false, clampSigned(int(rn))}}, "res": M{"kind": "ok"}})
			continue
		}
		modes := []string{"fail", "fail1", "failsync", "fullerr1"} // fail1: one Write call fails, the destination works again afterwards; failsync: "fail" on a destination that has a Sync method
		if kind == "merge" {
			modes = append(modes, "close", "retry")
		}
		extra := kind == "merge" && len(op.Bufs) > 0 && bi >= len(op.Bufs) // the exact-fit sizes: a coarse sweep
		if extra {
			modes = []string{"fail"}
		}
		if op.Tail > 0 {
			modes = []string{"close", "fail"} // the tail of a big file (doc-value location table, field index, footer)
		}
		for _, mode := range modes {
			outcomes := [][]interface{}{}
			step := 1
			if op.Stop > 1 {
				step = op.Stop
			}
			run := run
			if extra {
				if s := L / 16; s > step {
					step = s
				}
			}
			if mode == "failsync" {
				if s := L / 24; s > step {
					step = s
				}
			}
			if mode == "fullerr1" && kind == "merge" {
				if s := L / 48; s > step {
					step = s
				}
			}
			if mode == "retry" {
				run = mkRetry(buf)
				if s := L / 12; s > step {
					step = s // a dozen offsets are enough for the second call
				}
			}
			k0 := 0
			if op.Tail > 0 && L > op.Tail {
				k0 = L - op.Tail
			}
			for k := k0; k <= L+1+step; k += step {
				w := &faultWriter{once: -1, limit: -1, closeAt: -1, ch: make(chan struct{}), eof: (k/step)%3 == 1}
				if mode == "fail" || mode == "retry" || mode == "failsync" {
					w.limit = k
				} else if mode == "fail1" || mode == "fullerr1" {
					w.once = k
					w.full = mode == "fullerr1"
				} else {
					w.closeAt = k
					if k == 0 {
						w.closed = true
						close(w.ch)
					}
				}
				var n int64
				var err error
				var dest io.Writer = w
				if mode == "failsync" {
					dest = syncFaultWriter{w}
				}
				cl := e.call(func() { n, err = run(dest, w.ch) })
				es := "nil"
				switch {
				case cl == "blocked":
					es = "blocked"
				case cl != "":
					es = "panic"
				case err == segment.ErrClosed:
					es = "closed"
				case err != nil:
					es = "err"
				}
				got := w.buf.Bytes()
				complete := bytes.Equal(got, full)
				prefix := len(got) <= L && bytes.Equal(got, full[:len(got)])
				outcomes = append(outcomes, []interface{}{k, es, len(got), complete, prefix, clampSigned(int(n))})
				e.cov["wfault_"+mode]++
				if es == "nil" {
					e.cov["wfault_nil_"+mode]++
				}
			}
			e.emit(M{"ev": "wfault", "kind": kind, "buf": buf, "mode": mode, "L": L, "in": op.In, "drops": dropsEv,
				"outcomes": outcomes, "res": M{"kind": "ok"}})
		}
	}
}
