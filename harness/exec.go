package main

// The executor: runs abstract operations on the real ice built from /repo's
// working tree (and on the frozen reference copy for C10), projects every
// result to an abstract observation and records one ndjson event per call.
// It contains no oracle: expected values are computed by TLC from IceData.

import (
	"bufio"
	"bytes"
	"crypto/sha256"
	"encoding/binary"
	"encoding/hex"
	"encoding/json"
	"errors"
	"fmt"
	"hash/crc32"
	"io"
	"math"
	"os"
	"os/exec"
	"path/filepath"
	"reflect"
	"runtime"
	"runtime/debug"
	"sort"
	"strings"
	"sync/atomic"
	"time"
	"unsafe"

	"github.com/RoaringBitmap/roaring"
	segment "github.com/blugelabs/bluge_segment_api"
	ice "github.com/blugelabs/ice/v2"
	refice "verif/refimpl"
)

// ---------------------------------------------------------------------------
// implementations

type Impl struct {
	Name    string
	NewMode func(docs []segment.Document, norm func(string, int) float32, mode uint32) (segment.Segment, uint64, error)
	New     func(docs []segment.Document, norm func(string, int) float32) (segment.Segment, uint64, error)
	Merge   func(segs []segment.Segment, drops []*roaring.Bitmap, buf int) segment.Merger
	MergeM  func(segs []segment.Segment, drops []*roaring.Bitmap, buf int, mode uint32) segment.Merger
	Load    func(d *segment.Data) (segment.Segment, error)
	Footer  func(s segment.Segment) (crc uint32, numDocs uint64, chunkMode uint32, version uint32, ok bool)
}

var implCur = &Impl{
	Name:    "cur",
	NewMode: ice.VerifNew,
	New:     ice.New,
	Merge:   ice.Merge,
	MergeM: func(segs []segment.Segment, drops []*roaring.Bitmap, buf int, mode uint32) segment.Merger {
		return ice.VerifMerge(segs, drops, buf, mode)
	},
	Load: ice.Load,
	Footer: func(s segment.Segment) (uint32, uint64, uint32, uint32, bool) {
		x, ok := s.(*ice.Segment)
		if !ok {
			return 0, 0, 0, 0, false
		}
		return x.CRC(), x.NumDocs(), x.ChunkMode(), x.Version(), true
	},
}

var implRef = &Impl{
	Name:    "ref",
	NewMode: refice.RefNew,
	New:     refice.New,
	Merge:   refice.Merge,
	MergeM: func(segs []segment.Segment, drops []*roaring.Bitmap, buf int, mode uint32) segment.Merger {
		return refice.RefMerge(segs, drops, buf, mode)
	},
	Load: refice.Load,
	Footer: func(s segment.Segment) (uint32, uint64, uint32, uint32, bool) {
		x, ok := s.(*refice.Segment)
		if !ok {
			return 0, 0, 0, 0, false
		}
		return x.CRC(), x.NumDocs(), x.ChunkMode(), x.Version(), true
	},
}

func implByName(n string) *Impl {
	if n == "ref" {
		return implRef
	}
	return implCur
}

// ---------------------------------------------------------------------------
// scenario vocabulary

type DropSpec struct {
	Kind string `json:"kind"` // nil | set | bm
	Docs []int  `json:"docs,omitempty"`
	Bm   int    `json:"bm,omitempty"`
}

type Bound struct {
	Kind string `json:"kind"` // nil | key
	Key  Bytes  `json:"key,omitempty"`
}

type Aut struct {
	Kind  string  `json:"kind"` // all | nilaut | prefix | oneof | none
	P     Bytes   `json:"p,omitempty"`
	Terms []Bytes `json:"terms,omitempty"`
}

type Pair struct {
	Field string `json:"field"`
	Term  Bytes  `json:"term"`
}

type Op struct {
	Op       string     `json:"op"`
	Seg      int        `json:"seg,omitempty"`
	Seg2     int        `json:"seg2,omitempty"`
	File     int        `json:"file,omitempty"`
	Batch    int        `json:"batch,omitempty"`
	Mode     uint32     `json:"mode,omitempty"` // 0 = public API (adaptive default)
	Impl     string     `json:"impl,omitempty"`
	Cold     bool       `json:"cold,omitempty"`
	In       []int      `json:"in,omitempty"`
	Drops    []DropSpec `json:"drops,omitempty"`
	Buf      int        `json:"buf,omitempty"`
	Backing  string     `json:"backing,omitempty"`
	Field    string     `json:"field,omitempty"`
	Fields   []string   `json:"fields,omitempty"`
	Term     Bytes      `json:"term,omitempty"`
	Lo       *Bound     `json:"lo,omitempty"`
	Hi       *Bound     `json:"hi,omitempty"`
	Aut      *Aut       `json:"aut,omitempty"`
	Except   *DropSpec  `json:"except,omitempty"`
	Pl       int        `json:"pl,omitempty"`
	It       int        `json:"it,omitempty"`
	R        int        `json:"r,omitempty"`
	R2       int        `json:"r2,omitempty"`
	Bm       int        `json:"bm,omitempty"`
	Prealloc int        `json:"prealloc,omitempty"`
	Freq     bool       `json:"freq,omitempty"`
	Norm     bool       `json:"norm,omitempty"`
	Locs     bool       `json:"locs,omitempty"`
	D        int        `json:"d,omitempty"`
	N        int        `json:"n,omitempty"`
	Stop     int        `json:"stop,omitempty"` // stored: stop after k values; 0 = never
	Tail     int        `json:"tail,omitempty"` // wfaults: only the offsets of the last Tail bytes of the file
	Docs     []int      `json:"docs,omitempty"`
	Pairs    []Pair     `json:"pairs,omitempty"`
	Level    string     `json:"level,omitempty"`
	Slow     bool       `json:"slow,omitempty"` // persist/merge: the destination sleeps inside every Write
	Wrap     int        `json:"wrap,omitempty"` // persist/merge: the destination is a *bufio.Writer of this size ...
	Pre      int        `json:"pre,omitempty"`  // ... in which this many bytes of the caller are still pending
	Terms    []Pair     `json:"terms,omitempty"`
	ReuseD   bool       `json:"reuse_dict,omitempty"`
	Nested   *Op        `json:"nested,omitempty"` // a read issued from inside the first visitor callback
	Nest     []Op       `json:"nest,omitempty"`   // reads issued from inside callback number AtCb (1-based)
	AtCb     int        `json:"at_cb,omitempty"`
	G        int        `json:"g,omitempty"`
	NoCount  bool       `json:"nocount,omitempty"`
	Groups   [][]Op     `json:"groups,omitempty"`
	Schedule []int      `json:"schedule,omitempty"`
	Bufs     []int      `json:"bufs,omitempty"`
	Watchdog int        `json:"watchdog_ms,omitempty"`
	ModelExp *int       `json:"model_exp,omitempty"` // what the Level-I model expects (cross-checked against Level A)
	NoStats  bool       `json:"nostats,omitempty"`
}

type Scenario struct {
	Name     string   `json:"name"`
	Prop     string   `json:"prop,omitempty"`
	NormKind string   `json:"norm,omitempty"`
	Universe []string `json:"universe"` // field names that may appear (incl. unknown ones used in queries)
	Batches  []Batch  `json:"batches"`
	Ops      []Op     `json:"ops"`
	Tags     []string `json:"tags,omitempty"` // coverage tags set by the generator
}

// ---------------------------------------------------------------------------
// environment

// countingReaderAt stands between a file-backed segment and its file: after `allow` further reads (when armed)
// every read fails - a storage failure that starts between two reads of ONE call (C19).
type countingReaderAt struct {
	eof   bool // the injected failure carries the error value io.EOF
	f     *os.File
	armed int32
	allow int64
}

func (c *countingReaderAt) ReadAt(p []byte, off int64) (int, error) {
	switch atomic.LoadInt32(&c.armed) {
	case 1: // permanent: after `allow` more reads every read fails
		if atomic.AddInt64(&c.allow, -1) < 0 {
			if c.eof {
				return 0, io.EOF // what os.File.ReadAt says when the file was truncated underneath the segment
			}
			return 0, errors.New("verif: injected storage failure")
		}
	case 2: // transient: exactly the read after `allow` more reads fails, the storage recovers
		if atomic.AddInt64(&c.allow, -1) == -1 {
			if c.eof {
				return 0, io.EOF
			}
			return 0, errors.New("verif: injected transient storage failure")
		}
	}
	return c.f.ReadAt(p, off)
}

// setDataReader replaces the unexported io.ReaderAt of a segment.Data (the public API only takes *os.File).
func setDataReader(d *segment.Data, r io.ReaderAt) {
	f := reflect.ValueOf(d).Elem().FieldByName("r")
	reflect.NewAt(f.Type(), unsafe.Pointer(f.UnsafeAddr())).Elem().Set(reflect.ValueOf(&r).Elem())
}

type segH struct {
	cr    *countingReaderAt
	raw   []byte // the bytes the segment was loaded from (nil for built segments)
	seg   segment.Segment
	impl  *Impl
	file  *os.File // file backing, if any
	path  string
	dicts map[string]segment.Dictionary
}

type Env struct {
	fieldLists     map[string][]string // ONE caller-side []string per requested doc-value field list, handed to every DocumentValueReader call that asks for that list
	persistCalls   int
	ditLast        map[int]*keptEntry // the entry each live dictionary iterator returned last (the object itself + a copy)
	statAdds       int
	retFields      map[int]*retainedFields // Fields() results the caller kept (the slice as returned + a private copy)
	retDocNums     map[int]*retainedNums   // DocumentNumbers() results the caller kept, by output file
	keybuf         []byte // ONE caller-side key buffer reused for every Contains / PostingsList key (the API borrows keys)
	statObjs       map[int]segment.CollectionStats
	tr             *Trace
	sc             *Scenario
	norm           func(string, int) float32
	workdir        string
	segs           map[int]*segH
	files          map[int][]byte
	pls            map[int]segment.PostingsList
	its            map[int]segment.PostingsIterator
	dvrs           map[int]segment.DocumentValueReader
	bms            map[int]*roaring.Bitmap
	objIDs         map[interface{}]int
	nextObj        int
	watchdog       time.Duration
	inline         bool // run calls on the caller's goroutine (C14: keeps sync.Pool locality)
	g              int  // goroutine tag for concurrent drivers
	cov            map[string]int
	itFlags        map[int]itFlags
	batchBase      int
	lastPl, lastIt int
	dvrSeg         map[int]int
	dits           map[int]segment.DictionaryIterator
	sched          *scheduler
	gateArmed      bool
	sawBlocked     *bool
	docnums        map[int][][]int
	sink           func(M) // when set, events go here instead of the trace (digests)
}

func NewEnv(tr *Trace, sc *Scenario, workdir string) *Env {
	return &Env{inline: os.Getenv("VERIF_INLINE") == "1", tr: tr, sc: sc, workdir: workdir,
		norm: normFunc(sc.NormKind, sc.Universe),
		segs: map[int]*segH{}, files: map[int][]byte{},
		pls: map[int]segment.PostingsList{}, its: map[int]segment.PostingsIterator{},
		dvrs: map[int]segment.DocumentValueReader{}, bms: map[int]*roaring.Bitmap{},
		objIDs: map[interface{}]int{}, nextObj: 1000000,
		watchdog: 20 * time.Second * time.Duration(watchdogScale()), cov: map[string]int{}, itFlags: map[int]itFlags{}, docnums: map[int][][]int{}, dvrSeg: map[int]int{}, sawBlocked: new(bool), ditLast: map[int]*keptEntry{}, fieldLists: map[string][]string{}, retFields: map[int]*retainedFields{}, retDocNums: map[int]*retainedNums{}, dits: map[int]segment.DictionaryIterator{}}
}

func (e *Env) Close() {
	if e.gateArmed {
		ice.VerifSetGate(nil)
	}
	for _, h := range e.segs {
		if h.file != nil {
			h.file.Close()
			os.Remove(h.path)
		}
	}
}

// call runs fn guarded by recover and (unless inline) a watchdog. It returns the
// result class: "" (returned), "panic: ...", or "blocked".
func (e *Env) call(fn func()) string {
	if e.inline {
		return runRecover(fn)
	}
	done := make(chan string, 1)
	go func() { done <- runRecover(fn) }()
	select {
	case r := <-done:
		return r
	case <-time.After(e.watchdog):
		if e.sawBlocked != nil {
			*e.sawBlocked = true
		}
		return "blocked"
	}
}

// watchdogScale lets the driver re-run a scenario with generous timeouts (a "blocked" verdict must
// survive a re-run in isolation before it counts; CPU starvation is not a violation)
func watchdogScale() int {
	var v int
	if _, err := fmt.Sscan(os.Getenv("VERIF_WATCHDOG_SCALE"), &v); err == nil && v > 0 {
		return v
	}
	return 1
}

func runRecover(fn func()) (res string) {
	defer func() {
		if r := recover(); r != nil {
			res = fmt.Sprintf("panic: %v", r)
			if os.Getenv("VERIF_PANIC_STACK") != "" {
				fmt.Fprintf(os.Stderr, "PANIC %v\n%s\n", r, debug.Stack())
			}
		}
	}()
	fn()
	return ""
}

// resKind folds (call class, error) into the abstract result kind.
func resKind(class string, err error) M {
	switch {
	case class == "blocked":
		return M{"kind": "blocked"}
	case class != "":
		return M{"kind": "panic", "msg": trunc(class, 200)}
	case err == segment.ErrClosed:
		return M{"kind": "closed"}
	case err != nil:
		return M{"kind": "err", "msg": trunc(err.Error(), 200)}
	}
	return M{"kind": "ok"}
}

func trunc(s string, n int) string {
	if len(s) > n {
		return s[:n]
	}
	return s
}

func (e *Env) emit(ev M) {
	ev["g"] = e.g
	if e.sink != nil {
		e.sink(ev)
		return
	}
	e.tr.Emit(ev)
}

func digest(b []byte) string {
	h := sha256.Sum256(b)
	return hex.EncodeToString(h[:8])
}

func (e *Env) bitmapOf(d *DropSpec) *roaring.Bitmap {
	if d == nil {
		return nil
	}
	switch d.Kind {
	case "set":
		bm := roaring.New()
		for _, x := range d.Docs {
			bm.Add(uint32(x))
		}
		return bm
	case "bm":
		return e.bms[d.Bm]
	}
	return nil
}

// dropEv is the logged form of a drop/except argument: the concrete set.
func (e *Env) dropEv(d *DropSpec) M {
	if d == nil || d.Kind == "nil" || d.Kind == "" {
		return M{"kind": "nil", "docs": []int{}}
	}
	if d.Kind == "bm" {
		docs := []int{}
		if bm := e.bms[d.Bm]; bm != nil {
			for _, x := range bm.ToArray() {
				docs = append(docs, int(x))
			}
		}
		return M{"kind": "set", "docs": docs, "bm": d.Bm}
	}
	docs := append([]int{}, d.Docs...)
	sort.Ints(docs)
	return M{"kind": "set", "docs": docs}
}

// ---------------------------------------------------------------------------
// operations

func (e *Env) Run(ops []Op) {
	for i := range ops {
		if e.sawBlocked != nil && *e.sawBlocked {
			// a call never returned (already recorded); what follows would only pile up timeouts
			e.emit(M{"ev": "skip", "op": ops[i].Op})
			continue
		}
		e.Do(&ops[i])
	}
}

// missing reports whether op refers to a handle that does not exist because the call
// that should have produced it failed; such operations are skipped (logged as "skip").
func (e *Env) missing(op *Op) bool {
	segMu.RLock()
	defer segMu.RUnlock()
	needSeg := map[string]bool{"persist": true, "persist_fail": true, "dit_open": true, "close_file": true, "fail_after": true, "fail_once": true, "fields": true, "dict": true, "contains": true, "dict_close": true,
		"pl_open": true, "stored": true, "dv_open": true, "match": true, "stats": true, "stats_merge": true, "stats_get": true,
		"observe": true, "layout": false}
	if needSeg[op.Op] && e.segs[op.Seg] == nil {
		return true
	}
	if op.Op == "stats_merge" && e.segs[op.Seg2] == nil {
		return true
	}
	if op.Op == "wfaults" && len(op.In) == 0 && e.segs[op.Seg] == nil {
		return true
	}
	if op.Op == "merge" || op.Op == "merge_fail" || op.Op == "merge_fsweep" || op.Op == "wfaults" {
		for _, h := range op.In {
			if e.segs[h] == nil {
				return true
			}
		}
	}
	switch op.Op {
	case "pl_count":
		return e.pls[op.Pl] == nil
	case "it_replace", "it_count", "it_close":
		return e.its[op.It] == nil
	}
	return false
}

func (e *Env) Do(op *Op) {
	if e.missing(op) {
		e.emit(M{"ev": "skip", "op": op.Op})
		return
	}
	switch op.Op {
	case "build":
		e.doBuild(op)
	case "build_fresh":
		e.doBuildFresh(op)
	case "merge":
		e.doMerge(op)
	case "persist":
		e.doPersist(op)
	case "load":
		e.doLoad(op)
	case "close_file", "fail_after", "fail_once":
		e.doCloseFile(op)
	case "def_bm":
		bm := roaring.New()
		for _, x := range op.Docs {
			bm.Add(uint32(x))
		}
		e.bms[op.Bm] = bm
		e.emit(M{"ev": "def_bm", "bm": op.Bm, "docs": sortedInts(op.Docs), "digest": bmDigest(bm)})
	case "fields":
		e.doFields(op)
	case "dict":
		e.doDict(op)
	case "contains":
		e.doContains(op)
	case "pl_open":
		e.doPlOpen(op)
	case "pl_count":
		e.doPlCount(op)
	case "it_open":
		e.doItOpen(op)
	case "it_replace":
		e.doItReplace(op)
	case "it_next", "it_adv":
		e.doItStep(op)
	case "it_open_last":
		o := *op
		o.Op, o.Pl = "it_open", e.lastPl
		e.doItOpen(&o)
	case "it_next_last", "it_adv_last":
		o := *op
		o.Op, o.It = strings.TrimSuffix(op.Op, "_last"), e.lastIt
		e.doItStep(&o)
	case "merge_translated":
		e.doMergeTranslated(op)
	case "same_obs":
		e.doSameObs(op)
	case "par":
		e.doPar(op)
	case "sched":
		e.doSched(op)
	case "arm_gate_close":
		e.doArmGateClose(op)
	case "wfaults":
		e.doWFaults(op)
	case "merge_fsweep":
		e.doMergeFSweep(op)
	case "load_fsweep":
		e.doLoadFSweep(op)
	case "dit_open":
		e.doDitOpen(op)
	case "dit_close":
		e.doDitClose(op)
	case "dit_next":
		e.doDitNext(op)
	case "persist_fail":
		e.doPersistFail(op)
	case "merge_fail":
		e.doMergeFail(op)
	case "watchdog":
		e.watchdog = time.Duration(op.Watchdog) * time.Millisecond * time.Duration(watchdogScale())
		e.emit(M{"ev": "skip", "op": "watchdog"})
	case "it_count":
		e.doItCount(op)
	case "dict_close":
		e.doDictClose(op)
	case "it_close":
		e.doItClose(op)
	case "it_close_last":
		if e.lastIt != 0 && e.its[e.lastIt] != nil {
			e.doItClose(&Op{Op: "it_close", It: e.lastIt})
		} else {
			e.emit(M{"ev": "skip", "op": op.Op})
		}
	case "stored":
		e.doStored(op)
	case "dv_open":
		e.doDvOpen(op)
	case "dv_visit":
		e.doDvVisit(op)
	case "match":
		e.doMatch(op)
	case "stats":
		e.doStats(op)
	case "stats_merge":
		e.doStatsMerge(op)
	case "stats_get", "stats_add", "stats_read":
		e.doStatsObj(op)
	case "digest":
		e.doDigest(op)
	case "observe":
		e.doObserve(op)
	case "layout":
		e.doLayout(op)
	default:
		panic("unknown op " + op.Op)
	}
}

func sortedInts(x []int) []int {
	r := append([]int{}, x...)
	sort.Ints(r)
	return r
}

func bmDigest(bm *roaring.Bitmap) string {
	b, err := bm.ToBytes()
	if err != nil {
		return "err"
	}
	return digest(b)
}

func (e *Env) seg(h int) *segH {
	segMu.RLock()
	s := e.segs[h]
	segMu.RUnlock()
	if s == nil {
		panic(fmt.Sprintf("scenario refers to unknown segment handle %d", h))
	}
	return s
}

func (e *Env) doBuild(op *Op) {
	impl := implByName(op.Impl)
	b := e.sc.Batches[op.Batch]
	pooled := false
	if impl == implCur {
		if op.Cold {
			ice.VerifPoolReset()
		}
		pooled = ice.VerifPoolProbe()
		if pooled {
			e.cov["pooled_builds"]++
		}
	}
	var seg segment.Segment
	var size uint64
	var err error
	class := e.call(func() {
		if op.Mode == 0 {
			seg, size, err = impl.New(b.Documents(), e.norm)
		} else {
			seg, size, err = impl.NewMode(b.Documents(), e.norm, op.Mode)
		}
	})
	res := resKind(class, err)
	mode := op.Mode
	if mode == 0 {
		mode = 1025
	}
	if res["kind"] == "ok" {
		segMu.Lock()
		e.segs[op.Seg] = &segH{seg: seg, impl: impl, dicts: map[string]segment.Dictionary{}}
		segMu.Unlock()
		res["count"] = clampInt(seg.Count())
		res["size"] = clampInt(size)
		var buf bytes.Buffer
		var n int64
		var werr error
		cl := e.call(func() { n, werr = seg.WriteTo(&buf, nil) })
		if cl == "" && werr == nil {
			res["digest"] = digest(buf.Bytes())
			res["wlen"] = buf.Len()
			res["wn"] = clampSigned(int(n))
			res["datalen"] = buf.Len() - 44
		} else {
			res["digest"] = "writeto-failed:" + cl
			res["wlen"] = -1
			res["wn"] = -1
			res["datalen"] = -1
		}
	}
	e.emit(M{"ev": "build", "seg": op.Seg, "batch": e.batchBase + op.Batch, "mode": int(mode), "public": op.Mode == 0,
		"impl": impl.Name, "cold": op.Cold, "pooled": pooled, "norm": e.sc.NormKind, "res": res})
}

// childBuildSpec is what a fresh executor process needs to build one batch after an optional first build.
type childBuildSpec struct {
	First    *Batch   `json:"first,omitempty"`
	Target   Batch    `json:"target"`
	Mode     uint32   `json:"mode"`
	Norm     string   `json:"norm"`
	Universe []string `json:"universe"`
}

// doBuildFresh builds op.Batch in a NEW process whose only earlier activity is (optionally) one build of batch
// op.N: process-wide state (package-level encoders, pools, caches) starts from scratch there. The bytes must be
// the ones every other build of the batch in this scenario produced (C14).
func (e *Env) doBuildFresh(op *Op) {
	spec := childBuildSpec{Target: e.sc.Batches[op.Batch], Mode: op.Mode, Norm: e.sc.NormKind, Universe: e.sc.Universe}
	if op.N >= 0 && op.N < len(e.sc.Batches) {
		spec.First = &e.sc.Batches[op.N]
	}
	res := M{"kind": "err", "msg": "child process failed"}
	path := filepath.Join(e.workdir, fmt.Sprintf("child-%d-%d.json", os.Getpid(), op.Seg))
	if data, err := json.Marshal(spec); err == nil && os.WriteFile(path, data, 0o600) == nil {
		exe, _ := os.Executable()
		out, err := exec.Command(exe, "childbuild", path).Output()
		os.Remove(path)
		var r M
		if err == nil && json.Unmarshal(out, &r) == nil {
			res = r
		} else if err != nil {
			res["msg"] = fmt.Sprintf("child process failed: %v", err)
		}
	}
	mode := op.Mode
	if mode == 0 {
		mode = 1025
	}
	e.emit(M{"ev": "build", "seg": op.Seg, "batch": e.batchBase + op.Batch, "mode": int(mode), "public": op.Mode == 0,
		"impl": "cur", "cold": true, "pooled": false, "fresh": true, "norm": e.sc.NormKind, "res": res})
}

// cmdChildBuild is the body of the fresh process.
func cmdChildBuild(path string) {
	data, err := os.ReadFile(path)
	if err != nil {
		fatal(err)
	}
	var spec childBuildSpec
	if err := json.Unmarshal(data, &spec); err != nil {
		fatal(err)
	}
	norm := normFunc(spec.Norm, spec.Universe)
	build := func(b Batch) (segment.Segment, uint64, error) {
		b = b.Norm()
		if spec.Mode == 0 {
			return implCur.New(b.Documents(), norm)
		}
		return implCur.NewMode(b.Documents(), norm, spec.Mode)
	}
	if spec.First != nil {
		build(*spec.First)
	}
	res := M{"kind": "ok"}
	seg, size, err := build(spec.Target)
	if err != nil {
		res = M{"kind": "err", "msg": err.Error()}
	} else {
		var buf bytes.Buffer
		n, werr := seg.WriteTo(&buf, nil)
		res["count"] = clampInt(seg.Count())
		res["size"] = clampInt(size)
		if werr == nil {
			res["digest"], res["wlen"], res["wn"], res["datalen"] = digest(buf.Bytes()), buf.Len(), clampSigned(int(n)), buf.Len()-44
		} else {
			res["digest"], res["wlen"], res["wn"], res["datalen"] = "writeto-failed", -1, -1, -1
		}
	}
	out, _ := json.Marshal(res)
	os.Stdout.Write(out)
}

func (e *Env) doMerge(op *Op) {
	impl := implByName(op.Impl)
	segs := make([]segment.Segment, len(op.In))
	for i, h := range op.In {
		segs[i] = e.seg(h).seg
	}
	drops := make([]*roaring.Bitmap, len(op.In))
	dropsEv := make([]M, len(op.In))
	for i := range op.In {
		var d *DropSpec
		if i < len(op.Drops) {
			d = &op.Drops[i]
		}
		drops[i] = e.bitmapOf(d)
		dropsEv[i] = e.dropEv(d)
	}
	var m segment.Merger
	if op.Mode == 0 {
		m = impl.Merge(segs, drops, op.Buf)
	} else {
		m = impl.MergeM(segs, drops, op.Buf, op.Mode)
	}
	var buf bytes.Buffer
	var n int64
	var err error
	w, done := wrapDest(&buf, op)
	if op.Nested != nil {
		// a destination that reads the index while it is being written to (a caller streaming the merge into a
		// store that consults a segment): the read runs inside the merge's own Write calls, on its goroutine
		w = &nestWriter{w: w, every: 1, max: 48, fn: func() {
			sub := *e
			sub.keybuf = nil
			sub.inline = true
			sub.Do(op.Nested)
		}}
	}
	class := e.call(func() { n, err = m.WriteTo(w, make(chan struct{})) })
	res := resKind(class, err)
	mode := op.Mode
	if mode == 0 {
		mode = 1025
	}
	if res["kind"] == "ok" {
		data := append([]byte{}, done()...)
		segMu.Lock()
		e.files[op.File] = data
		segMu.Unlock()
		res["n"] = clampSigned(int(n))
		res["delivered"] = len(data)
		res["digest"] = digest(data)
		dn := m.DocumentNumbers()
		if e.retDocNums != nil {
			cp := make([][]uint64, len(dn))
			for i := range dn {
				cp[i] = append([]uint64{}, dn[i]...)
			}
			e.retDocNums[op.File] = &retainedNums{raw: dn, copy: cp}
		}
		out := make([][]int, len(dn))
		for i := range dn {
			out[i] = make([]int, len(dn[i]))
			for j, v := range dn[i] {
				if v == math.MaxInt64 {
					out[i][j] = -1
				} else if v > 0x7ffffff0 {
					out[i][j] = -2
				} else {
					out[i][j] = int(v)
				}
			}
		}
		res["docnums"] = out
		e.docnums[op.File] = out
		res["footer"] = footerOf(data)
	}
	e.emit(M{"ev": "merge", "file": op.File, "in": op.In, "drops": dropsEv, "mode": int(mode),
		"public": op.Mode == 0, "buf": op.Buf, "impl": impl.Name, "res": res})
}

// doMergeFSweep repeats the merge that produced file op.File (same inputs, drops, mode, buffer) while one read of
// the file-backed input op.Seg fails: the k-th read of the run for every k (step op.Stop), transiently ("once") and,
// on a coarser grid, from then on ("after").  Outcome: <<k, mode, err, same bytes as op.File>>.
func (e *Env) doMergeFSweep(op *Op) {
	impl := implByName(op.Impl)
	h := e.seg(op.Seg)
	want, have := e.files[op.File]
	if h == nil || h.cr == nil || !have {
		e.emit(M{"ev": "skip", "op": "merge_fsweep"})
		return
	}
	segs := make([]segment.Segment, len(op.In))
	drops := make([]*roaring.Bitmap, len(op.In))
	for i, x := range op.In {
		segs[i] = e.seg(x).seg
		var d *DropSpec
		if i < len(op.Drops) {
			d = &op.Drops[i]
		}
		drops[i] = e.bitmapOf(d)
	}
	run := func() (string, []byte) {
		var m segment.Merger
		if op.Mode == 0 {
			m = impl.Merge(segs, drops, op.Buf)
		} else {
			m = impl.MergeM(segs, drops, op.Buf, op.Mode)
		}
		var buf bytes.Buffer
		var err error
		cl := e.call(func() { _, err = m.WriteTo(&buf, make(chan struct{})) })
		switch {
		case cl == "blocked":
			return "blocked", nil
		case cl != "":
			return "panic", nil
		case err != nil:
			return "err", nil
		}
		return "nil", buf.Bytes()
	}
	// the number of reads of an undisturbed run
	const far = int64(1) << 40
	atomic.StoreInt64(&h.cr.allow, far)
	atomic.StoreInt32(&h.cr.armed, 2)
	es, got := run()
	reads := int(far - atomic.LoadInt64(&h.cr.allow))
	atomic.StoreInt32(&h.cr.armed, 0)
	if es != "nil" || !bytes.Equal(got, want) {
		e.emit(M{"ev": "merge_fsweep", "file": op.File, "seg": op.Seg, "in": op.In, "reads": reads,
			"outcomes": [][]interface{}{{-1, "none", es, es == "nil" && bytes.Equal(got, want)}}, "res": M{"kind": "ok"}})
		return
	}
	step := 1
	if op.Stop > 1 {
		step = op.Stop
	}
	outcomes := [][]interface{}{}
	for _, mode := range []string{"once", "after"} {
		st := step
		if mode == "after" {
			if c := reads / 24; c > st {
				st = c
			}
		}
		for k := op.N % st; k < reads; k += st {
			atomic.StoreInt64(&h.cr.allow, int64(k))
			if mode == "once" {
				atomic.StoreInt32(&h.cr.armed, 2)
			} else {
				atomic.StoreInt32(&h.cr.armed, 1)
			}
			es, got := run()
			atomic.StoreInt32(&h.cr.armed, 0)
			outcomes = append(outcomes, []interface{}{k, mode, es, es == "nil" && bytes.Equal(got, want)})
			e.cov["fsweep_"+mode]++
			if es == "nil" {
				e.cov["fsweep_nil_"+mode]++
			}
		}
	}
	e.emit(M{"ev": "merge_fsweep", "file": op.File, "seg": op.Seg, "in": op.In, "reads": reads, "outcomes": outcomes, "res": M{"kind": "ok"}})
}

// doLoadFSweep loads file op.File again and again through file-backed (on-demand) data while ONE read of the Load
// call fails: the k-th, for every k (step op.Stop).  A Load that reports success must yield a segment that observes
// exactly like the one loaded without any fault (full observation, digests compared); outcome <<k, "once", err, same>>.
func (e *Env) doLoadFSweep(op *Op) {
	impl := implByName(op.Impl)
	segMu.RLock()
	data, ok := e.files[op.File]
	segMu.RUnlock()
	if !ok {
		e.emit(M{"ev": "skip", "op": "load_fsweep"})
		return
	}
	p := filepath.Join(e.workdir, fmt.Sprintf("sweep-%d-%d.ice", os.Getpid(), op.File))
	if werr := os.WriteFile(p, data, 0o600); werr != nil {
		panic(werr)
	}
	defer os.Remove(p)
	const far = int64(1) << 40
	try := func(k int64) (string, string, int) {
		f, oerr := os.Open(p)
		if oerr != nil {
			panic(oerr)
		}
		defer f.Close()
		sd, derr := segment.NewDataFile(f)
		if derr != nil {
			panic(derr)
		}
		cr := &countingReaderAt{f: f, armed: 2, allow: k}
		setDataReader(sd, cr)
		var seg segment.Segment
		var err error
		cl := e.call(func() { seg, err = impl.Load(sd) })
		reads := int(k - atomic.LoadInt64(&cr.allow))
		atomic.StoreInt32(&cr.armed, 0)
		switch {
		case cl == "blocked":
			return "blocked", "", reads
		case cl != "":
			return "panic", "", reads
		case err != nil:
			return "err", "", reads
		}
		h := &segH{impl: impl, seg: seg, dicts: map[string]segment.Dictionary{}, cr: cr, file: f}
		d := ""
		if c := runRecover(func() { d = e.segDigest(h, false) }); c != "" {
			d = "observation " + c
		}
		return "nil", d, reads
	}
	es, want, reads := try(far)
	if es != "nil" {
		e.emit(M{"ev": "load_fsweep", "file": op.File, "reads": reads, "outcomes": [][]interface{}{{-1, "none", es, false}}, "res": M{"kind": "ok"}})
		return
	}
	step := 1
	if op.Stop > 1 {
		step = op.Stop
	}
	outcomes := [][]interface{}{}
	for k := 0; k < reads; k += step {
		es, got, _ := try(int64(k))
		outcomes = append(outcomes, []interface{}{k, "once", es, es == "nil" && got == want})
		e.cov["lsweep_once"]++
		if es == "nil" {
			e.cov["lsweep_nil"]++
		}
	}
	e.emit(M{"ev": "load_fsweep", "file": op.File, "reads": reads, "outcomes": outcomes, "res": M{"kind": "ok"}})
}

// footerOf parses the fixed 44-byte footer itself (independent of ice) and
// recomputes the CRC-32 (IEEE) of everything before the last four bytes.
func footerOf(data []byte) M {
	if len(data) < 44 {
		return M{"kind": "short", "len": len(data)}
	}
	f := data[len(data)-44:]
	u64 := func(b []byte) string { return fmt.Sprintf("%d", binary.BigEndian.Uint64(b)) }
	nd := binary.BigEndian.Uint64(f[0:8])
	return M{"kind": "footer",
		"numDocs":   clampInt(nd),
		"stored":    u64(f[8:16]),
		"fieldsIdx": u64(f[16:24]),
		"dv":        u64(f[24:32]),
		"chunkMode": clampInt(uint64(binary.BigEndian.Uint32(f[32:36]))),
		"version":   clampInt(uint64(binary.BigEndian.Uint32(f[36:40]))),
		"crc":       fmt.Sprintf("%08x", binary.BigEndian.Uint32(f[40:44])),
		"crc_calc":  fmt.Sprintf("%08x", crc32.ChecksumIEEE(data[:len(data)-4])),
	}
}

func (e *Env) doPersist(op *Op) {
	h := e.seg(op.Seg)
	var buf bytes.Buffer
	var n int64
	var err error
	w, done := wrapDest(&buf, op)
	// callers pass a close channel they never close as often as none at all
	var ch chan struct{}
	e.persistCalls++
	if e.persistCalls%2 == 0 {
		ch = make(chan struct{})
	}
	class := e.call(func() { n, err = h.seg.WriteTo(w, ch) })
	res := resKind(class, err)
	if res["kind"] == "ok" {
		data := append([]byte{}, done()...)
		segMu.Lock()
		e.files[op.File] = data
		segMu.Unlock()
		res["n"] = clampSigned(int(n))
		res["delivered"] = len(data)
		res["digest"] = digest(data)
		res["footer"] = footerOf(data)
		if crc, nd, cm, ver, ok := h.impl.Footer(h.seg); ok {
			res["seg"] = M{"crc": fmt.Sprintf("%08x", crc), "numDocs": clampInt(nd), "chunkMode": int(cm), "version": int(ver)}
		}
	}
	e.emit(M{"ev": "persist", "seg": op.Seg, "file": op.File, "res": res})
}

type nestWriter struct {
	w          io.Writer
	fn         func()
	calls, max int
	every      int
}

func (n *nestWriter) Write(p []byte) (int, error) {
	n.calls++
	if (n.every <= 1 || n.calls%n.every == 1) && n.max > 0 {
		n.max--
		n.fn()
	}
	return n.w.Write(p)
}

// wrapDest gives the destination of a persist/merge: the plain buffer, or (op.Wrap > 0) a caller-owned
// *bufio.Writer of that size in which op.Pre bytes of the caller's own data are still pending. done() flushes
// as the caller would and returns the bytes that arrived after the caller's own.
func wrapDest(buf *bytes.Buffer, op *Op) (io.Writer, func() []byte) {
	if op.Slow {
		// a slow destination (a pipe, a replica): the call stays inside Write long enough for other calls on
		// the same object to start and finish meanwhile
		return &slowWriter{w: buf, yield: op.Buf > 0 && op.Buf < 16}, func() []byte { return buf.Bytes() }
	}
	if op.Wrap <= 0 {
		return buf, func() []byte { return buf.Bytes() }
	}
	bw := bufio.NewWriterSize(buf, op.Wrap)
	pre := make([]byte, op.Pre)
	for i := range pre {
		pre[i] = 0xEE
	}
	bw.Write(pre)
	return bw, func() []byte {
		bw.Flush()
		return buf.Bytes()[op.Pre:]
	}
}

type slowWriter struct {
	w     io.Writer
	yield bool // many tiny writes (merge buffer of 1 byte): yield instead of sleeping
}

func (s *slowWriter) Write(p []byte) (int, error) {
	if s.yield {
		for k := 0; k < 4; k++ {
			runtime.Gosched()
		}
		n, err := s.w.Write(p)
		runtime.Gosched()
		return n, err
	}
	time.Sleep(3 * time.Millisecond)
	n, err := s.w.Write(p)
	time.Sleep(3 * time.Millisecond)
	return n, err
}

func (e *Env) doLoad(op *Op) {
	impl := implByName(op.Impl)
	segMu.RLock()
	data, ok := e.files[op.File]
	segMu.RUnlock()
	if !ok {
		// the producing call failed; nothing to load
		e.emit(M{"ev": "load", "file": op.File, "seg": op.Seg, "backing": op.Backing, "impl": impl.Name,
			"res": M{"kind": "nofile"}})
		return
	}
	var seg segment.Segment
	var err error
	h := &segH{impl: impl, dicts: map[string]segment.Dictionary{}}
	var sd *segment.Data
	if op.Backing == "file" {
		p := filepath.Join(e.workdir, fmt.Sprintf("seg-%d-%d-%d.ice", os.Getpid(), op.File, op.Seg))
		if werr := os.WriteFile(p, data, 0o600); werr != nil {
			panic(werr)
		}
		f, oerr := os.Open(p)
		if oerr != nil {
			panic(oerr)
		}
		h.file, h.path = f, p
		sd, err = segment.NewDataFile(f)
		if err != nil {
			panic(err)
		}
		h.cr = &countingReaderAt{f: f}
		setDataReader(sd, h.cr)
	} else {
		sd = segment.NewDataBytes(append([]byte{}, data...))
	}
	h.raw = data
	class := e.call(func() { seg, err = impl.Load(sd) })
	res := resKind(class, err)
	if res["kind"] == "ok" {
		h.seg = seg
		segMu.Lock()
		e.segs[op.Seg] = h
		segMu.Unlock()
		res["count"] = clampInt(seg.Count())
		if crc, nd, cm, ver, ok := impl.Footer(seg); ok {
			res["seg"] = M{"crc": fmt.Sprintf("%08x", crc), "numDocs": clampInt(nd), "chunkMode": int(cm), "version": int(ver)}
		}
	} else if h.file != nil {
		h.file.Close()
		os.Remove(h.path)
	}
	e.emit(M{"ev": "load", "file": op.File, "seg": op.Seg, "backing": op.Backing, "impl": impl.Name, "res": res})
}

func (e *Env) doCloseFile(op *Op) {
	h := e.seg(op.Seg)
	if (op.Op == "fail_after" || op.Op == "fail_once") && h.cr != nil {
		// the storage keeps working for op.N more reads, then fails - for good, or for one read only
		h.cr.eof = op.N%2 == 1
		atomic.StoreInt64(&h.cr.allow, int64(op.N))
		if op.Op == "fail_once" {
			atomic.StoreInt32(&h.cr.armed, 2)
		} else {
			atomic.StoreInt32(&h.cr.armed, 1)
		}
	} else if h.file != nil {
		h.file.Close()
	}
	e.emit(M{"ev": "close_file", "seg": op.Seg})
}

type keptEntry struct {
	en    segment.DictionaryEntry
	term  string
	count uint64
}

type retainedFields struct {
	raw  []string
	copy []string
}

type retainedNums struct {
	raw  [][]uint64
	copy [][]uint64
}

func (e *Env) doFields(op *Op) {
	h := e.seg(op.Seg)
	var fs []string
	class := e.call(func() {
		raw := h.seg.Fields()
		fs = append([]string{}, raw...)
		if e.retFields != nil {
			if _, ok := e.retFields[op.Seg]; !ok {
				e.retFields[op.Seg] = &retainedFields{raw: raw, copy: fs}
			}
		}
	})
	res := resKind(class, nil)
	if res["kind"] == "ok" {
		if fs == nil {
			fs = []string{}
		}
		res["fields"] = fs
	}
	e.emit(M{"ev": "fields", "seg": op.Seg, "res": res})
}

func boundEv(b *Bound) M {
	if b == nil || b.Kind != "key" {
		return M{"kind": "nil"}
	}
	return M{"kind": "key", "key": nn(b.Key)}
}

func nn(b Bytes) Bytes {
	if b == nil {
		return Bytes{}
	}
	return b
}

func boundRaw(b *Bound) []byte {
	if b == nil || b.Kind != "key" {
		return nil
	}
	return b.Key.Raw()
}

func autEv(a *Aut) M {
	if a == nil {
		return M{"kind": "all"}
	}
	switch a.Kind {
	case "prefix":
		return M{"kind": "prefix", "p": nn(a.P)}
	case "oneof":
		ts := make([]Bytes, len(a.Terms))
		for i := range a.Terms {
			ts[i] = nn(a.Terms[i])
		}
		return M{"kind": "oneof", "terms": ts}
	case "none":
		return M{"kind": "none"}
	}
	return M{"kind": "all"}
}

func (e *Env) dictOf(h *segH, field string, reuse bool) (segment.Dictionary, error) {
	if reuse {
		if d, ok := h.dicts[field]; ok {
			return d, nil
		}
	}
	d, err := h.seg.Dictionary(field)
	if err == nil && reuse {
		h.dicts[field] = d
	}
	return d, err
}

// doDictClose closes a Dictionary object (a fresh one, or the one the harness keeps for reuse - which is then
// forgotten: a closed dictionary is not used again). Every other lookup must go on as before.
func (e *Env) doDictClose(op *Op) {
	h := e.seg(op.Seg)
	var err error
	class := e.call(func() {
		var d segment.Dictionary
		d, err = e.dictOf(h, op.Field, op.ReuseD)
		if err != nil {
			return
		}
		err = d.Close()
	})
	delete(h.dicts, op.Field)
	e.emit(M{"ev": "dict_close", "seg": op.Seg, "field": op.Field, "res": resKind(class, err)})
}

func (e *Env) doDict(op *Op) {
	h := e.seg(op.Seg)
	entries := []M{}
	var err error
	class := e.call(func() {
		var d segment.Dictionary
		d, err = e.dictOf(h, op.Field, op.ReuseD)
		if err != nil {
			return
		}
		itr := d.Iterator(makeAutomaton(op.Aut), boundRaw(op.Lo), boundRaw(op.Hi))
		for {
			var en segment.DictionaryEntry
			en, err = itr.Next()
			if err != nil || en == nil {
				return
			}
			cnt := clampInt(en.Count())
			if op.NoCount {
				cnt = -1
			}
			entries = append(entries, M{"term": B([]byte(en.Term())), "count": cnt})
			if len(entries) > 100000 {
				err = fmt.Errorf("runaway dictionary iterator")
				return
			}
		}
	})
	res := resKind(class, err)
	if res["kind"] == "ok" {
		res["entries"] = entries
	}
	e.emit(M{"ev": "dict", "seg": op.Seg, "field": op.Field, "lo": boundEv(op.Lo), "hi": boundEv(op.Hi),
		"aut": autEv(op.Aut), "reuse_dict": op.ReuseD, "nocount": op.NoCount, "res": res})
}

// key copies the term into the environment's reused key buffer: successive lookups hand the library slices over
// the same backing array with different contents, as a caller recycling its buffer does
func (e *Env) key(t Bytes) []byte {
	raw := t.Raw()
	if cap(e.keybuf) < 64 {
		e.keybuf = make([]byte, 0, 64)
	}
	if len(raw) > cap(e.keybuf) {
		return raw
	}
	e.keybuf = append(e.keybuf[:0], raw...)
	return e.keybuf
}

func (e *Env) doContains(op *Op) {
	h := e.seg(op.Seg)
	var ok bool
	var err error
	class := e.call(func() {
		var d segment.Dictionary
		d, err = e.dictOf(h, op.Field, op.ReuseD)
		if err != nil {
			return
		}
		ok, err = d.Contains(e.key(op.Term))
	})
	res := resKind(class, err)
	if res["kind"] == "ok" {
		res["contains"] = ok
	}
	e.emit(M{"ev": "contains", "seg": op.Seg, "field": op.Field, "term": nn(op.Term), "res": res})
}

// objID gives every distinct returned object a stable handle; an object that is
// returned again (because it was passed as prealloc) keeps its handle.
func (e *Env) objID(o interface{}, want int) int {
	if id, ok := e.objIDs[o]; ok {
		return id
	}
	if want == 0 {
		e.nextObj++
		want = e.nextObj
	}
	e.objIDs[o] = want
	return want
}

func (e *Env) doPlOpen(op *Op) int {
	h := e.seg(op.Seg)
	var pl segment.PostingsList
	var err error
	except := e.bitmapOf(op.Except)
	var pre segment.PostingsList
	if op.Prealloc != 0 {
		pre = e.pls[op.Prealloc]
	}
	class := e.call(func() {
		var d segment.Dictionary
		d, err = e.dictOf(h, op.Field, op.ReuseD)
		if err != nil {
			return
		}
		pl, err = d.PostingsList(e.key(op.Term), except, pre)
	})
	res := resKind(class, err)
	id := 0
	if res["kind"] == "ok" {
		if pl == nil {
			res = M{"kind": "nilresult"}
		} else {
			var preO interface{}
			if pre != nil {
				preO = pre
			}
			id = e.aliasID(pl, preO, op.Prealloc, op.Pl)
			e.pls[id] = pl
			var c uint64
			cl := e.call(func() { c = pl.Count() })
			if cl != "" {
				res = resKind(cl, nil)
			} else {
				res["count"] = clampInt(c)
			}
		}
	}
	e.emit(M{"ev": "pl_open", "seg": op.Seg, "field": op.Field, "term": nn(op.Term), "except": e.dropEv(op.Except),
		"prealloc": op.Prealloc, "pl": id, "reuse_dict": op.ReuseD, "res": res})
	e.lastPl = id
	return id
}

func (e *Env) doPlCount(op *Op) {
	pl := e.pls[op.Pl]
	var c uint64
	class := e.call(func() { c = pl.Count() })
	res := resKind(class, nil)
	if res["kind"] == "ok" {
		res["count"] = clampInt(c)
	}
	e.emit(M{"ev": "pl_count", "pl": op.Pl, "res": res})
}

func (e *Env) doItOpen(op *Op) int {
	pl := e.pls[op.Pl]
	if pl == nil {
		e.emit(M{"ev": "it_open", "pl": op.Pl, "it": 0, "freq": op.Freq, "norm": op.Norm, "locs": op.Locs,
			"prealloc": op.Prealloc, "res": M{"kind": "nopl"}})
		e.lastIt = 0
		return 0
	}
	var pre segment.PostingsIterator
	if op.Prealloc != 0 {
		pre = e.its[op.Prealloc]
	}
	var it segment.PostingsIterator
	var err error
	class := e.call(func() { it, err = pl.Iterator(op.Freq, op.Norm, op.Locs, pre) })
	res := resKind(class, err)
	id := 0
	onehit := false
	if res["kind"] == "ok" {
		if it == nil {
			res = M{"kind": "nilresult"}
		} else {
			var preO interface{}
			if pre != nil {
				preO = pre
			}
			id = e.aliasID(it, preO, op.Prealloc, op.It)
			e.its[id] = it
			e.itFlags[id] = itFlags{op.Freq, op.Norm, op.Locs}
			if o, ok := it.(segment.OptimizablePostingsIterator); ok {
				if _, is1 := o.DocNum1Hit(); is1 {
					onehit = true // an encoding detail (probe), not part of the observation
					e.cov["onehit_iter"]++
				}
			}
		}
	}
	e.emit(M{"ev": "it_open", "pl": op.Pl, "it": id, "freq": op.Freq, "norm": op.Norm, "locs": op.Locs,
		"prealloc": op.Prealloc, "onehit": onehit, "res": res})
	e.lastIt = id
	return id
}

func (e *Env) doItReplace(op *Op) {
	it := e.its[op.It]
	bm := roaring.New()
	docs := op.Docs
	if op.Bm != 0 && e.bms[op.Bm] != nil {
		// a caller-owned bitmap (def_bm), possibly handed to several iterators: it stays the caller's (C15)
		bm = e.bms[op.Bm]
		docs = nil
		itr := bm.Iterator()
		for itr.HasNext() {
			docs = append(docs, int(itr.Next()))
		}
	} else {
		for _, x := range op.Docs {
			bm.Add(uint32(x))
		}
	}
	var okType bool
	class := e.call(func() {
		var o segment.OptimizablePostingsIterator
		o, okType = it.(segment.OptimizablePostingsIterator)
		if okType {
			o.ReplaceActual(bm)
		}
	})
	res := resKind(class, nil)
	if res["kind"] == "ok" && !okType {
		res = M{"kind": "notoptimizable"}
	}
	e.emit(M{"ev": "it_replace", "it": op.It, "docs": sortedInts(docs), "bm": op.Bm, "res": res})
}

func postingEv(p segment.Posting, freq, norm, locs bool) M {
	r := M{"kind": "hit", "doc": clampInt(p.Number()), "freq": -1, "norm": -1, "locs": []M{}}
	if freq {
		r["freq"] = clampSigned(p.Frequency())
	}
	if norm {
		r["norm"] = clampInt(uint64(math.Float32bits(float32(p.Norm()))))
	}
	if locs {
		ls := []M{}
		for _, l := range p.Locations() {
			ls = append(ls, M{"field": l.Field(), "pos": clampSigned(l.Pos()), "start": clampSigned(l.Start()), "end": clampSigned(l.End())})
		}
		r["locs"] = ls
	}
	// a multi-segment reader renumbers the hit in place (local number + the segment's base) before it hands it on
	runRecover(func() { p.SetNumber(p.Number() + 1000003) })
	return r
}

type itFlags struct{ freq, norm, locs bool }

func (e *Env) doItStep(op *Op) string {
	it := e.its[op.It]
	if it == nil {
		e.emit(M{"ev": op.Op, "it": op.It, "d": op.D, "model_exp": -2, "res": M{"kind": "noit"}})
		return "noit"
	}
	fl := e.itFlags[op.It]
	var p segment.Posting
	var err error
	var res M
	class := e.call(func() {
		if op.Op == "it_next" {
			p, err = it.Next()
		} else {
			p, err = it.Advance(uint64(op.D))
		}
		if err == nil && p != nil {
			res = postingEv(p, fl.freq, fl.norm, fl.locs) // copy before anything else runs
		}
	})
	k := resKind(class, err)
	if k["kind"] == "ok" {
		if res == nil {
			res = M{"kind": "end"}
		}
	} else {
		res = k
	}
	me := -2
	if op.ModelExp != nil {
		me = *op.ModelExp
	}
	e.emit(M{"ev": op.Op, "it": op.It, "d": op.D, "model_exp": me, "res": res})
	return res["kind"].(string)
}

// aliasID names a returned object. An object the call was handed as prealloc keeps that handle. A KNOWN
// object that was not handed in (the shared empty list/iterator - or an object the code recycled on its own)
// gets a second handle: the model keeps the two uses independent, so interference between them shows up
// as a contradicted result.
func (e *Env) aliasID(o, pre interface{}, preID, want int) int {
	if pre != nil && o == pre {
		return preID
	}
	if _, known := e.objIDs[o]; known {
		if want == 0 || e.handleTaken(want) {
			e.nextObj++
			want = e.nextObj
		}
		return want
	}
	return e.objID(o, want)
}

func (e *Env) handleTaken(h int) bool {
	_, a := e.pls[h]
	_, b := e.its[h]
	return a || b
}

func (e *Env) doItClose(op *Op) {
	it := e.its[op.It]
	var err error
	class := e.call(func() {
		if c, ok := it.(interface{ Close() error }); ok {
			err = c.Close()
		}
	})
	e.emit(M{"ev": "it_close", "it": op.It, "res": resKind(class, err)})
}

func (e *Env) doItCount(op *Op) {
	it := e.its[op.It]
	var c uint64
	class := e.call(func() { c = it.Count() })
	res := resKind(class, nil)
	if res["kind"] == "ok" {
		res["count"] = clampInt(c)
	}
	e.emit(M{"ev": "it_count", "it": op.It, "res": res})
}

func (e *Env) doStored(op *Op) {
	h := e.seg(op.Seg)
	vals := []M{}
	var err error
	var nestedDone bool
	class := e.call(func() {
		err = h.seg.VisitStoredFields(uint64(op.N), func(field string, value []byte) bool {
			e.cbGate()
			if op.Nested != nil && !nestedDone {
				// re-entrancy: a read from inside the callback, before the value is copied
				nestedDone = true
				sub := *e
				sub.keybuf = nil
				sub.inline = true
				sub.Do(op.Nested)
			}
			for k := range op.Nest {
				if op.Nest[k].AtCb == len(vals)+1 {
					sub := *e
					sub.keybuf = nil
					sub.keybuf = nil
					sub.inline = true
					sub.Do(&op.Nest[k])
				}
			}
			vals = append(vals, M{"field": field, "value": B(value)})
			if len(vals) > 100000 {
				return false
			}
			return !(op.Stop > 0 && len(vals) >= op.Stop)
		})
	})
	res := resKind(class, err)
	if res["kind"] == "ok" {
		res["values"] = vals
	}
	e.emit(M{"ev": "stored", "seg": op.Seg, "n": op.N, "stop": op.Stop, "nested": op.Nested != nil || len(op.Nest) > 0, "res": res})
}

func (e *Env) doDvOpen(op *Op) {
	h := e.seg(op.Seg)
	var r segment.DocumentValueReader
	var err error
	// a caller keeps one field list and opens a reader on every segment with it: the API only reads the list
	arg := append([]string{}, op.Fields...)
	if e.fieldLists != nil && len(op.Fields) > 0 {
		key := strings.Join(op.Fields, "\x00")
		if l, ok := e.fieldLists[key]; ok {
			arg = l
		} else {
			e.fieldLists[key] = arg
		}
	}
	class := e.call(func() { r, err = h.seg.DocumentValueReader(arg) })
	res := resKind(class, err)
	if res["kind"] == "ok" {
		e.dvrs[op.R] = r
		e.dvrSeg[op.R] = op.Seg
	}
	fs := op.Fields
	if fs == nil {
		fs = []string{}
	}
	e.emit(M{"ev": "dv_open", "seg": op.Seg, "r": op.R, "fields": fs, "res": res})
}

func (e *Env) doDvVisit(op *Op) {
	r := e.dvrs[op.R]
	if r == nil {
		e.emit(M{"ev": "dv_visit", "r": op.R, "n": op.N, "res": M{"kind": "noreader"}})
		return
	}
	if h := e.segs[e.dvrSeg[op.R]]; h != nil {
		// contract: doc values are only requested for existing documents
		cnt := uint64(0)
		runRecover(func() { cnt = h.seg.Count() })
		if uint64(op.N) >= cnt {
			e.emit(M{"ev": "skip", "op": "dv_visit"})
			return
		}
	}
	vals := []M{}
	var err error
	var nestedDone bool
	class := e.call(func() {
		err = r.VisitDocumentValues(uint64(op.N), func(field string, term []byte) {
			e.cbGate()
			if op.Nested != nil && !nestedDone {
				// re-entrancy: another read of the same segment from inside the callback, before the term is copied
				nestedDone = true
				sub := *e
				sub.keybuf = nil
				sub.inline = true
				sub.Do(op.Nested)
			}
			vals = append(vals, M{"field": field, "term": B(term)})
		})
	})
	res := resKind(class, err)
	if res["kind"] == "ok" {
		res["values"] = vals
	}
	e.emit(M{"ev": "dv_visit", "r": op.R, "n": op.N, "res": res})
}

type xT struct {
	f string
	t []byte
}

func (x xT) Field() string { return x.f }
func (x xT) Term() []byte  { return x.t }

func (e *Env) doMatch(op *Op) {
	h := e.seg(op.Seg)
	terms := make([]segment.Term, len(op.Pairs))
	pe := make([]M, len(op.Pairs))
	for i, p := range op.Pairs {
		terms[i] = xT{p.Field, p.Term.Raw()}
		pe[i] = M{"field": p.Field, "term": nn(p.Term)}
	}
	var bm *roaring.Bitmap
	var err error
	class := e.call(func() { bm, err = h.seg.DocsMatchingTerms(terms) })
	res := resKind(class, err)
	if res["kind"] == "ok" {
		docs := []int{}
		if bm != nil {
			for _, x := range bm.ToArray() {
				docs = append(docs, int(x))
			}
		}
		res["docs"] = docs
		// the result is the caller's: an index layer keeps it as its deletion set and adds to it
		if bm != nil {
			runRecover(func() { bm.Add(uint32(1000003 + len(docs))) })
		}
	}
	e.emit(M{"ev": "match", "seg": op.Seg, "pairs": pe, "res": res})
}

// statsEv: the 64-bit sum is split into base-2^20 digits (TLC integers are 32 bit; the specification adds in
// the same representation)
func statsEv(cs segment.CollectionStats) M {
	v := cs.SumTotalTermFrequency()
	return M{"total": clampInt(cs.TotalDocumentCount()), "docs": clampInt(cs.DocumentCount()),
		"sumttf": M{"hi": clampInt(v >> 20), "lo": int(v & (1<<20 - 1))}}
}

func (e *Env) doStats(op *Op) {
	h := e.seg(op.Seg)
	var cs segment.CollectionStats
	var err error
	class := e.call(func() { cs, err = h.seg.CollectionStats(op.Field) })
	res := resKind(class, err)
	if res["kind"] == "ok" {
		res["stats"] = statsEv(cs)
	}
	e.emit(M{"ev": "stats", "seg": op.Seg, "field": op.Field, "res": res})
}

type foreignStats struct{ total, docs, sum uint64 }

func (f *foreignStats) TotalDocumentCount() uint64    { return f.total }
func (f *foreignStats) DocumentCount() uint64         { return f.docs }
func (f *foreignStats) SumTotalTermFrequency() uint64 { return f.sum }
func (f *foreignStats) Merge(o segment.CollectionStats) {
	f.total += o.TotalDocumentCount()
	f.docs += o.DocumentCount()
	f.sum += o.SumTotalTermFrequency()
}

// statistics objects that live across calls: stats_get keeps the object CollectionStats returned under handle R,
// stats_add merges R2 into R (CollectionStats.Merge mutates its receiver), stats_read reads an object back
func (e *Env) doStatsObj(op *Op) {
	if e.statObjs == nil {
		e.statObjs = map[int]segment.CollectionStats{}
	}
	switch op.Op {
	case "stats_get":
		h := e.seg(op.Seg)
		var cs segment.CollectionStats
		var err error
		class := e.call(func() { cs, err = h.seg.CollectionStats(op.Field) })
		res := resKind(class, err)
		if res["kind"] == "ok" {
			e.statObjs[op.R] = cs
			res["stats"] = statsEv(cs)
		}
		e.emit(M{"ev": "stats_get", "seg": op.Seg, "field": op.Field, "r": 600000 + op.R, "res": res})
	case "stats_add":
		a, b := e.statObjs[op.R], e.statObjs[op.R2]
		if a == nil || b == nil {
			e.emit(M{"ev": "skip", "op": op.Op})
			return
		}
		e.statAdds++
		var arg segment.CollectionStats = b
		if e.statAdds%2 == 1 {
			// the other side is another implementation of the interface (another segment plugin, an index-level accumulator)
			arg = &foreignStats{total: b.TotalDocumentCount(), docs: b.DocumentCount(), sum: b.SumTotalTermFrequency()}
		}
		class := e.call(func() { a.Merge(arg) })
		res := resKind(class, nil)
		if res["kind"] == "ok" {
			res["stats"] = statsEv(a)
		}
		e.emit(M{"ev": "stats_add", "r": 600000 + op.R, "r2": 600000 + op.R2, "res": res})
	case "stats_read":
		a := e.statObjs[op.R]
		if a == nil {
			e.emit(M{"ev": "skip", "op": op.Op})
			return
		}
		var ev M
		class := e.call(func() { ev = statsEv(a) })
		res := resKind(class, nil)
		if res["kind"] == "ok" {
			res["stats"] = ev
		}
		e.emit(M{"ev": "stats_read", "r": 600000 + op.R, "res": res})
	}
}

func (e *Env) doStatsMerge(op *Op) {
	a, b := e.seg(op.Seg), e.seg(op.Seg2)
	var cs segment.CollectionStats
	var err error
	class := e.call(func() {
		var o segment.CollectionStats
		cs, err = a.seg.CollectionStats(op.Field)
		if err != nil {
			return
		}
		o, err = b.seg.CollectionStats(op.Field)
		if err != nil {
			return
		}
		e.statAdds++
		if e.statAdds%2 == 1 {
			o = &foreignStats{total: o.TotalDocumentCount(), docs: o.DocumentCount(), sum: o.SumTotalTermFrequency()}
		}
		cs.Merge(o)
	})
	res := resKind(class, err)
	if res["kind"] == "ok" {
		res["stats"] = statsEv(cs)
	}
	e.emit(M{"ev": "stats_merge", "seg": op.Seg, "seg2": op.Seg2, "field": op.Field, "res": res})
}

// ---------------------------------------------------------------------------
// digests for C15: a segment's digest covers its full observation and the
// bytes it persists; a bitmap's digest covers membership and serialised form.

func (e *Env) segDigest(h *segH, withBytes bool) string {
	sub := &Env{tr: nil, sc: e.sc, norm: e.norm, segs: map[int]*segH{1: h}, files: map[int][]byte{},
		pls: map[int]segment.PostingsList{}, its: map[int]segment.PostingsIterator{},
		dvrs: map[int]segment.DocumentValueReader{}, bms: map[int]*roaring.Bitmap{},
		objIDs: map[interface{}]int{}, nextObj: 1000000, watchdog: e.watchdog, inline: true, cov: map[string]int{},
		itFlags: map[int]itFlags{}, docnums: map[int][][]int{}, dvrSeg: map[int]int{}}
	hs := sha256.New()
	sub.sink = func(ev M) {
		delete(ev, "g")
		delete(ev, "onehit")
		fmt.Fprintf(hs, "%v\n", canon(ev))
	}
	sub.doObserve(&Op{Op: "observe", Seg: 1, Level: "full"})
	if withBytes {
		// the segment-level accessors belong to the observation too (C15): CRC, counts, offsets, size
		if crc, nd, cm, ver, ok := h.impl.Footer(h.seg); ok {
			fmt.Fprintf(hs, "footer:%08x:%d:%d:%d:", crc, nd, cm, ver)
		}
		if x, ok := h.seg.(*ice.Segment); ok {
			fmt.Fprintf(hs, "offs:%d:%d:%d:size:%d:", x.FieldsIndexOffset(), x.StoredIndexOffset(), x.DocValueOffset(), x.Size())
		}
		var buf bytes.Buffer
		cl := runRecover(func() { h.seg.WriteTo(&buf, nil) })
		fmt.Fprintf(hs, "bytes:%s:%s", cl, digest(buf.Bytes()))
	}
	return hex.EncodeToString(hs.Sum(nil)[:8])
}

func canon(v interface{}) string {
	switch x := v.(type) {
	case M:
		keys := make([]string, 0, len(x))
		for k := range x {
			keys = append(keys, k)
		}
		sort.Strings(keys)
		var sb strings.Builder
		sb.WriteString("{")
		for _, k := range keys {
			sb.WriteString(k + ":" + canon(x[k]) + ",")
		}
		sb.WriteString("}")
		return sb.String()
	case []M:
		var sb strings.Builder
		sb.WriteString("[")
		for _, y := range x {
			sb.WriteString(canon(y) + ",")
		}
		sb.WriteString("]")
		return sb.String()
	default:
		return fmt.Sprintf("%v", x)
	}
}

func (e *Env) doDigest(op *Op) {
	segs := []M{}
	hs := make([]int, 0, len(e.segs))
	for h := range e.segs {
		hs = append(hs, h)
	}
	sort.Ints(hs)
	for _, h := range hs {
		if len(op.In) > 0 && !containsInt(op.In, h) {
			continue
		}
		segs = append(segs, M{"seg": h, "d": e.segDigest(e.segs[h], true)})
	}
	bms := []M{}
	bs := make([]int, 0, len(e.bms))
	for b := range e.bms {
		bs = append(bs, b)
	}
	sort.Ints(bs)
	for _, b := range bs {
		bms = append(bms, M{"bm": b, "d": bmDigest(e.bms[b]), "docs": bmDocs(e.bms[b])})
	}
	// results the caller kept from earlier calls still read what they read then
	retained := []M{}
	var ks []int
	for k := range e.retFields {
		ks = append(ks, k)
	}
	sort.Ints(ks)
	for _, k := range ks {
		r := e.retFields[k]
		same := len(r.raw) == len(r.copy)
		for i := 0; same && i < len(r.raw); i++ {
			same = r.raw[i] == r.copy[i]
		}
		retained = append(retained, M{"what": "fields", "h": k, "same": same})
	}
	ks = ks[:0]
	for k := range e.retDocNums {
		ks = append(ks, k)
	}
	sort.Ints(ks)
	for _, k := range ks {
		r := e.retDocNums[k]
		same := len(r.raw) == len(r.copy)
		for i := 0; same && i < len(r.raw); i++ {
			same = len(r.raw[i]) == len(r.copy[i])
			for j := 0; same && j < len(r.raw[i]); j++ {
				same = r.raw[i][j] == r.copy[i][j]
			}
		}
		retained = append(retained, M{"what": "docnums", "h": k, "same": same})
	}
	e.emit(M{"ev": "digest", "segs": segs, "bitmaps": bms, "retained": retained})
}

func bmDocs(bm *roaring.Bitmap) []int {
	r := []int{}
	for _, x := range bm.ToArray() {
		r = append(r, int(x))
	}
	return r
}

func containsInt(xs []int, x int) bool {
	for _, y := range xs {
		if y == x {
			return true
		}
	}
	return false
}

// ---------------------------------------------------------------------------
// observe: the full observation of a segment as a series of primitive events

func (e *Env) vocab() (fields []string, terms map[string][][]byte) {
	fm := map[string]bool{}
	tm := map[string]map[string]bool{}
	for _, b := range e.sc.Batches {
		for f, ts := range b.Terms() {
			fm[f] = true
			if tm[f] == nil {
				tm[f] = map[string]bool{}
			}
			for t := range ts {
				tm[f][t] = true
			}
		}
	}
	for _, f := range e.sc.Universe {
		fm[f] = true
	}
	for f := range fm {
		fields = append(fields, f)
	}
	sort.Strings(fields)
	terms = map[string][][]byte{}
	for f, ts := range tm {
		for t := range ts {
			terms[f] = append(terms[f], []byte(t))
		}
		sort.Slice(terms[f], func(i, j int) bool { return bytes.Compare(terms[f][i], terms[f][j]) < 0 })
	}
	return
}

func (e *Env) doObserve(op *Op) {
	h := e.seg(op.Seg)
	light := op.Level == "light"
	e.doFields(op)
	fields, terms := e.vocab()
	// also query whatever the segment itself claims to have
	known := map[string]bool{}
	for _, f := range fields {
		known[f] = true
	}
	var segFields []string
	runRecover(func() { segFields = append([]string{}, h.seg.Fields()...) })
	for _, f := range segFields {
		if !known[f] {
			fields = append(fields, f)
			known[f] = true
		}
	}
	count := 0
	runRecover(func() { count = int(h.seg.Count()) })
	for _, f := range fields {
		if !op.NoStats {
			e.doStats(&Op{Seg: op.Seg, Field: f})
		}
		// the dictionary's own enumeration decides which terms are queried, plus the vocabulary
		q := map[string]bool{}
		for _, t := range terms[f] {
			q[string(t)] = true
		}
		q["\x00absent"] = true
		var listed []string
		runRecover(func() {
			d, err := h.seg.Dictionary(f)
			if err != nil {
				return
			}
			itr := d.Iterator(nil, nil, nil)
			for i := 0; i < 100000; i++ {
				en, err := itr.Next()
				if err != nil || en == nil {
					return
				}
				listed = append(listed, en.Term())
			}
		})
		for _, t := range listed {
			q[t] = true
		}
		e.doDict(&Op{Seg: op.Seg, Field: f, NoCount: op.NoCount})
		if light {
			continue
		}
		qs := make([]string, 0, len(q))
		for t := range q {
			qs = append(qs, t)
		}
		sort.Strings(qs)
		for _, t := range qs {
			e.doContains(&Op{Seg: op.Seg, Field: f, Term: B([]byte(t))})
			e.drain(op.Seg, f, []byte(t), nil, true, true, true)
		}
	}
	if light {
		return
	}
	for n := 0; n < count+2; n++ {
		if h.impl == implRef && h.raw != nil && n%128 == 0 && n > 0 {
			// The pinned reference reader slices past its reused decompress buffer when a later block is a
			// little larger than an earlier one (a defect repaired in the current tree). C10 is about the
			// format, so the reference reads every stored block with a fresh segment object.
			if fresh, err := implRef.Load(segment.NewDataBytes(append([]byte{}, h.raw...))); err == nil {
				h.seg = fresh
			}
		}
		e.doStored(&Op{Seg: op.Seg, N: n})
	}
	e.nextObj++
	r := e.nextObj
	e.doDvOpen(&Op{Seg: op.Seg, R: r, Fields: fields})
	for n := 0; n < count; n++ {
		e.doDvVisit(&Op{R: r, N: n})
	}
	delete(e.dvrs, r)
}

// drain opens a postings list and iterates it to the end with Next (and once more).
func (e *Env) drain(seg int, field string, term []byte, except *DropSpec, freq, norm, locs bool) {
	e.nextObj++
	plID := e.doPlOpen(&Op{Seg: seg, Field: field, Term: B(term), Except: except, Pl: e.nextObj})
	if plID == 0 {
		return
	}
	e.nextObj++
	itID := e.doItOpen(&Op{Pl: plID, It: e.nextObj, Freq: freq, Norm: norm, Locs: locs})
	if itID != 0 {
		for i := 0; i < 1000000; i++ {
			if e.doItStep(&Op{Op: "it_next", It: itID}) != "hit" {
				break
			}
		}
		e.doItStep(&Op{Op: "it_next", It: itID}) // nil stays nil
	}
	e.forget(plID, itID)
}

// forget drops harness bookkeeping for temporary objects (the objects stay valid).
func (e *Env) forget(plID, itID int) {
	e.emit(M{"ev": "forget", "pl": plID, "it": itID})
	if pl, ok := e.pls[plID]; ok && plID >= 1000000 {
		delete(e.pls, plID)
		delete(e.objIDs, pl)
	}
	if it, ok := e.its[itID]; ok && itID >= 1000000 {
		delete(e.its, itID)
		delete(e.itFlags, itID)
		delete(e.objIDs, it)
	}
}

// doLayout is defined in layout.go

var _ = io.EOF

// doMergeTranslated performs a second-level merge whose first drop set is given against the
// ORIGINAL segments of an earlier merge and is translated through the document numbers that
// merge reported (C17). The event is an ordinary merge event with the concrete sets.
func (e *Env) doMergeTranslated(op *Op) {
	o := *op
	o.Op = "merge"
	o.Nested = nil
	o.Drops = append([]DropSpec{}, op.Drops...)
	for i := range o.Drops {
		if o.Drops[i].Kind != "translate" {
			continue
		}
		dn := e.docnums[o.Drops[i].Bm]
		docs := []int{}
		if dn == nil || op.Nested == nil {
			e.emit(M{"ev": "skip", "op": "merge_translated"})
			return
		}
		for si, d := range op.Nested.Drops {
			if si >= len(dn) {
				break
			}
			for _, n := range d.Docs {
				if n < len(dn[si]) && dn[si][n] >= 0 {
					docs = append(docs, dn[si][n])
				}
			}
		}
		o.Drops[i] = DropSpec{Kind: "set", Docs: docs}
	}
	if e.missing(&o) {
		e.emit(M{"ev": "skip", "op": "merge_translated"})
		return
	}
	e.doMerge(&o)
}

// doSameObs records the observation digests (no bytes) of segments that a metamorphic
// relation says must be observationally identical.
func (e *Env) doSameObs(op *Op) {
	ds := []M{}
	for _, h := range op.In {
		if s := e.segs[h]; s != nil {
			ds = append(ds, M{"seg": h, "d": e.segDigest(s, false)})
		}
	}
	e.emit(M{"ev": "same_obs", "segs": ds})
}

// doPersistFail persists into a writer that fails after op.N bytes. No claim is attached to
// the call itself (C12 enumerates those); it exists so that later writes follow a failed one.
// doMergeFail runs a merge into a destination that fails after op.N bytes (or whose close channel is closed
// from the start when op.N < 0); the outcome is not an observation - what the abandoned merge leaves behind is
// observed by the operations that follow (C08, C15)
func (e *Env) doMergeFail(op *Op) {
	var segs []segment.Segment
	var drops []*roaring.Bitmap
	for i, h := range op.In {
		segs = append(segs, e.seg(h).seg)
		var d *DropSpec
		if i < len(op.Drops) {
			d = &op.Drops[i]
		}
		drops = append(drops, e.bitmapOf(d))
	}
	w := &faultWriter{once: -1, limit: op.N, closeAt: -1}
	ch := make(chan struct{})
	if op.N < 0 {
		w.limit = -1
		close(ch)
	}
	e.call(func() {
		var m segment.Merger
		if op.Mode == 0 {
			m = implCur.Merge(segs, drops, op.Buf)
		} else {
			m = implCur.MergeM(segs, drops, op.Buf, op.Mode)
		}
		m.WriteTo(w, ch)
	})
	e.emit(M{"ev": "skip", "op": "merge_fail"})
}

func (e *Env) doPersistFail(op *Op) {
	h := e.seg(op.Seg)
	w := &faultWriter{once: -1, limit: op.N, closeAt: -1}
	e.call(func() { h.seg.WriteTo(w, nil) })
	e.emit(M{"ev": "skip", "op": "persist_fail"})
}

// dictionary iterators as objects that live across calls (several of one Dictionary at the same time)
func (e *Env) doDitOpen(op *Op) {
	h := e.seg(op.Seg)
	var err error
	class := e.call(func() {
		var d segment.Dictionary
		d, err = e.dictOf(h, op.Field, true) // always the same Dictionary object of this (segment, field)
		if err != nil {
			return
		}
		if e.dits == nil {
			e.dits = map[int]segment.DictionaryIterator{}
		}
		e.dits[op.R] = d.Iterator(makeAutomaton(op.Aut), boundRaw(op.Lo), boundRaw(op.Hi))
	})
	e.emit(M{"ev": "dit_open", "seg": op.Seg, "field": op.Field, "lo": boundEv(op.Lo), "hi": boundEv(op.Hi), "aut": autEv(op.Aut),
		"r": 500000 + op.R, "res": resKind(class, err)})
}

// doDitClose closes a dictionary iterator and drops the handle: what Close() does to the iterator itself is the
// caller's business no more, what it does to OTHER iterators shows in their later dit_next events
func (e *Env) doDitClose(op *Op) {
	it := e.dits[op.R]
	if it == nil {
		e.emit(M{"ev": "skip", "op": "dit_close"})
		return
	}
	var err error
	class := e.call(func() { err = it.Close() })
	delete(e.dits, op.R)
	delete(e.ditLast, op.R)
	e.emit(M{"ev": "dit_close", "r": 500000 + op.R, "res": resKind(class, err)})
}

func (e *Env) doDitNext(op *Op) {
	it := e.dits[op.R]
	if it == nil {
		e.emit(M{"ev": "skip", "op": "dit_next"})
		return
	}
	res := M{}
	var err error
	class := e.call(func() {
		var en segment.DictionaryEntry
		en, err = it.Next()
		if err == nil && en != nil {
			res = M{"end": false, "term": B([]byte(en.Term())), "count": clampInt(en.Count())}
			if e.ditLast != nil {
				e.ditLast[op.R] = &keptEntry{en: en, term: en.Term(), count: en.Count()}
			}
		} else {
			res = M{"end": true, "term": Bytes{}, "count": -1}
			if e.ditLast != nil {
				delete(e.ditLast, op.R)
			}
		}
		// an entry is valid until the next call on ITS iterator: the entries other live iterators returned last must
		// still read what they read (also when they come from the same Dictionary)
		for r, k := range e.ditLast {
			if r != op.R && e.dits[r] != nil && (k.en.Term() != k.term || k.en.Count() != k.count) {
				res["others_changed"] = true
			}
		}
	})
	k := resKind(class, err)
	for key, v := range res {
		k[key] = v
	}
	if k["kind"] != "ok" {
		k["end"], k["term"], k["count"] = true, Bytes{}, -1
	}
	e.emit(M{"ev": "dit_next", "r": 500000 + op.R, "res": k})
}
