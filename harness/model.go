package main

// Abstract inputs (the vocabulary of the TLA+ Level-A specification) and their
// instantiation as bluge_segment_api documents.

import (
	"encoding/json"
	"fmt"
	"math"
	"sort"

	segment "github.com/blugelabs/bluge_segment_api"
)

type Bytes []int // a byte string as JSON array of 0..255 (TLC reads it as Seq(0..255))

func B(b []byte) Bytes {
	r := make(Bytes, len(b))
	for i, x := range b {
		r[i] = int(x)
	}
	return r
}

// Large runs of one byte value (megabyte-sized stored values) travel as [-1, value, length]: still a sequence
// of integers for the specification, which only ever compares stored values for equality.
func (b Bytes) MarshalJSON() ([]byte, error) {
	if len(b) >= 4096 {
		same := true
		for _, x := range b {
			if x != b[0] {
				same = false
				break
			}
		}
		if same {
			return []byte(fmt.Sprintf("[-1,%d,%d]", b[0], len(b))), nil
		}
	}
	if b == nil {
		return []byte("null"), nil
	}
	return json.Marshal([]int(b))
}

func (b *Bytes) UnmarshalJSON(data []byte) error {
	var raw []int
	if err := json.Unmarshal(data, &raw); err != nil {
		return err
	}
	if len(raw) == 3 && raw[0] == -1 {
		r := make(Bytes, raw[2])
		for i := range r {
			r[i] = raw[1]
		}
		*b = r
		return nil
	}
	*b = Bytes(raw)
	return nil
}

func (b Bytes) Raw() []byte {
	r := make([]byte, len(b))
	for i, x := range b {
		r[i] = byte(x)
	}
	return r
}

type Loc struct {
	Field string `json:"field"`
	Pos   int    `json:"pos"`
	Start int    `json:"start"`
	End   int    `json:"end"`
}

type TermOcc struct {
	Term Bytes `json:"term"`
	Freq int   `json:"freq"`
	Locs []Loc `json:"locs"`
}

type FieldInst struct {
	Name   string    `json:"name"`
	Len    int       `json:"len"`
	Stored bool      `json:"stored"`
	Value  Bytes     `json:"value"`
	DV     bool      `json:"dv"`
	Terms  []TermOcc `json:"terms"`
}

type Doc []FieldInst
type Batch []Doc

// ---- normalisation so that JSON never contains null ----

func (b Batch) Norm() Batch {
	if b == nil {
		b = Batch{}
	}
	for d := range b {
		if b[d] == nil {
			b[d] = Doc{}
		}
		for i := range b[d] {
			fi := &b[d][i]
			if fi.Value == nil {
				fi.Value = Bytes{}
			}
			if fi.Terms == nil {
				fi.Terms = []TermOcc{}
			}
			for k := range fi.Terms {
				if fi.Terms[k].Term == nil {
					fi.Terms[k].Term = Bytes{}
				}
				if fi.Terms[k].Locs == nil {
					fi.Terms[k].Locs = []Loc{}
				}
			}
		}
	}
	return b
}

// ---- bluge_segment_api adapters ----

type xDoc struct{ d Doc }

func (x xDoc) Analyze() {}
func (x xDoc) EachField(vf segment.VisitField) {
	for i := range x.d {
		vf(xField{&x.d[i]})
	}
}

type xField struct{ f *FieldInst }

func (x xField) Name() string         { return x.f.Name }
func (x xField) Length() int          { return x.f.Len }
func (x xField) Value() []byte        { return x.f.Value.Raw() }
func (x xField) Index() bool          { return true }
func (x xField) Store() bool          { return x.f.Stored }
func (x xField) IndexDocValues() bool { return x.f.DV }
func (x xField) EachTerm(vt segment.VisitTerm) {
	for k := range x.f.Terms {
		vt(xTerm{&x.f.Terms[k]})
	}
}

type xTerm struct{ t *TermOcc }

func (x xTerm) Term() []byte   { return x.t.Term.Raw() }
func (x xTerm) Frequency() int { return x.t.Freq }
func (x xTerm) EachLocation(vl segment.VisitLocation) {
	for j := range x.t.Locs {
		vl(xLoc{&x.t.Locs[j]})
	}
}

type xLoc struct{ l *Loc }

func (x xLoc) Field() string { return x.l.Field }
func (x xLoc) Start() int    { return x.l.Start }
func (x xLoc) End() int      { return x.l.End }
func (x xLoc) Pos() int      { return x.l.Pos }
func (x xLoc) Size() int     { return 0 }

func (b Batch) Documents() []segment.Document {
	r := make([]segment.Document, len(b))
	for i := range b {
		r[i] = xDoc{b[i]}
	}
	return r
}

// ---- norm functions (configurations) ----

// A norm function is identified by name; the trace carries its table so that the
// specification, not the harness, decides which norm a posting must have.
func normFunc(kind string, universe []string) func(string, int) float32 {
	idx := map[string]int{}
	for i, f := range universe {
		idx[f] = i + 1
	}
	switch kind {
	case "const":
		return func(_ string, _ int) float32 { return 1.5 }
	case "invsqrt":
		return func(_ string, l int) float32 { return float32(1 / math.Sqrt(float64(l+1))) }
	default: // "code": injective in (field, len) on the run's domain, strictly positive
		return func(f string, l int) float32 {
			c, ok := idx[f]
			if !ok {
				c = 900
			}
			return float32(c*4096 + l + 1)
		}
	}
}

// ---- helpers over batches ----

func (b Batch) FieldNames() []string {
	m := map[string]bool{}
	for _, d := range b {
		for _, fi := range d {
			m[fi.Name] = true
		}
	}
	r := make([]string, 0, len(m))
	for k := range m {
		r = append(r, k)
	}
	sort.Strings(r)
	return r
}

func (b Batch) MaxTotalLen() int {
	mx := 0
	for _, d := range b {
		t := 0
		for _, fi := range d {
			t += fi.Len
		}
		if t > mx {
			mx = t
		}
	}
	return mx
}

// Terms lists the distinct (field, term) pairs of a batch.
func (b Batch) Terms() map[string]map[string]bool {
	m := map[string]map[string]bool{}
	for _, d := range b {
		for _, fi := range d {
			if m[fi.Name] == nil {
				m[fi.Name] = map[string]bool{}
			}
			for _, t := range fi.Terms {
				m[fi.Name][string(t.Term.Raw())] = true
			}
		}
	}
	return m
}
