package main

// More scenario families: iterator walks (C05), reuse (C13), stored-field sweeps (C06),
// doc-value walks (C07), dictionary ranges (C08), DocsMatchingTerms (C18),
// associativity (C17), immutability (C15), cross-version (C10), builder histories (C14).

import (
	"fmt"
	"math/rand"
	"sort"
	"strings"
)

func init() {
	families["iter_walk"] = genIterWalk
	families["iter_big"] = genIterBig
	families["reuse"] = genReuse
	families["stored_sweep"] = genStoredSweep
	families["stored_shapes"] = genStoredShapes
	families["dv_walk"] = genDvWalk
	families["dv_small"] = genDvSmall
	families["dict_ranges"] = genDictRanges
	families["match"] = genMatch
	families["assoc"] = genAssoc
	families["immut"] = genImmut
	families["xver"] = genXver
	families["pool_seq"] = genPoolSeq
	families["xver_big"] = genXverBig
	families["reuse_pairs"] = genReusePairs
	families["build_big"] = genBuildBig
	families["many_fields"] = genManyFields
	families["extremes"] = genExtremes
	families["huge"] = genHuge
	families["iter_share"] = genIterShare
	families["merge_chain"] = genMergeChain
	families["copy_boundary"] = genCopyBoundary
	families["proc_history"] = genProcHistory
	families["big_stored"] = genBigStored
	families["pool_wrap"] = genPoolWrap
	families["big_dv"] = genBigDv
	families["twin_persist"] = genTwinPersist
	families["adv_boundary"] = genAdvBoundary
	families["fault_load"] = genFaultLoad
	families["big_dict_merge"] = genBigDictMerge
	families["block_drop"] = genBlockDrop
	families["stat_edges"] = genStatEdges
	families["midsize"] = genMidsize
	families["bitmap_edges"] = genBitmapEdges
	families["conc_big"] = genConcBig
	families["big_freq"] = genBigFreq
	families["giant_posting"] = genGiantPosting
	families["pool_vocab"] = genPoolVocab
	families["dv_merge_order"] = genDvMergeOrder
	families["wide_repeat"] = genWideRepeat
	families["field_limit"] = genFieldLimit
	families["mass_delete"] = genMassDelete
	families["card_boundary"] = genCardBoundary
	families["roundtrip_big"] = genRoundtripBig
	families["twin_merge"] = genTwinMerge
	families["dict_interleave"] = genDictInterleave
	families["pool_big"] = genPoolBig
}

// postingsBatch builds n documents in which term "x" of field "a" occurs exactly in the
// documents of `in`; withLocs chooses per posting whether it carries locations.
func postingsBatch(r *rand.Rand, n int, in map[int]bool, fillerTerms bool) Batch {
	b := make(Batch, n)
	for d := 0; d < n; d++ {
		doc := Doc{}
		if r.Intn(3) != 0 {
			id := []byte(fmt.Sprintf("d%d", d))
			doc = append(doc, FieldInst{Name: "_id", Len: 1, Stored: true, Value: B(id), Terms: []TermOcc{{Term: B(id), Freq: 1, Locs: []Loc{}}}})
		}
		fi := FieldInst{Name: "a", Value: Bytes{}, Terms: []TermOcc{}}
		if in[d] {
			occ := TermOcc{Term: B([]byte("x")), Freq: 1 + r.Intn(3), Locs: []Loc{}}
			if r.Intn(2) == 0 {
				for j := 0; j < 1+r.Intn(occ.Freq); j++ {
					occ.Locs = append(occ.Locs, Loc{Field: "", Pos: 1 + j, Start: d, End: d + 1 + r.Intn(300)})
				}
			}
			fi.Terms = append(fi.Terms, occ)
		}
		if fillerTerms && r.Intn(2) == 0 {
			occ := TermOcc{Term: B([]byte("y")), Freq: 1, Locs: []Loc{}}
			if r.Intn(3) == 0 {
				occ.Locs = append(occ.Locs, Loc{Field: "", Pos: 9, Start: 1, End: 2})
			}
			fi.Terms = append(fi.Terms, occ)
		}
		for _, t := range fi.Terms {
			fi.Len += t.Freq
		}
		if len(fi.Terms) > 0 || r.Intn(2) == 0 {
			doc = append(doc, fi)
		}
		b[d] = doc
	}
	return b
}

func subset(r *rand.Rand, n int, p float64) map[int]bool {
	m := map[int]bool{}
	for i := 0; i < n; i++ {
		if r.Float64() < p {
			m[i] = true
		}
	}
	return m
}

func keys(m map[int]bool) []int {
	r := []int{}
	for k := range m {
		r = append(r, k)
	}
	sort.Ints(r)
	return r
}

// walkOps appends a random Next/Advance history with non-decreasing targets.
func walkOps(r *rand.Rand, ops []Op, it, n int) []Op {
	target := 0
	steps := 2 + r.Intn(n+3)
	for s := 0; s < steps; s++ {
		if r.Intn(2) == 0 {
			ops = append(ops, Op{Op: "it_next", It: it})
		} else {
			target += r.Intn(3 + n/4)
			ops = append(ops, Op{Op: "it_adv", It: it, D: target})
		}
	}
	// run to the end and beyond: nil stays nil
	for s := 0; s < n+2; s++ {
		ops = append(ops, Op{Op: "it_next", It: it})
	}
	ops = append(ops, Op{Op: "it_adv", It: it, D: target + 1})
	ops = append(ops, Op{Op: "it_count", It: it})
	return ops
}

func genIterWalk(r *rand.Rand, i int) Scenario {
	n := 1 + r.Intn(12)
	in := subset(r, n, []float64{0.3, 0.6, 0.9, 1.0}[r.Intn(4)])
	onehit := r.Intn(5) == 0
	if onehit {
		// a single posting with frequency 1 and no locations becomes 1-hit encoded by a merge
		in = map[int]bool{r.Intn(n): true}
	}
	b := postingsBatch(r, n, in, true)
	if onehit {
		for d := range b {
			for k := range b[d] {
				if b[d][k].Name == "a" {
					for t := range b[d][k].Terms {
						if string(b[d][k].Terms[t].Term.Raw()) == "x" {
							b[d][k].Terms[t].Freq = 1
							b[d][k].Terms[t].Locs = []Loc{}
						}
					}
					b[d][k].Len = 0
					for _, t := range b[d][k].Terms {
						b[d][k].Len += t.Freq
					}
				}
			}
		}
	}
	sc := Scenario{Name: fmt.Sprintf("iter_walk-%d", i), NormKind: "code", Universe: []string{"_id", "a"}, Batches: []Batch{b}}
	mode := []uint32{1, 2, 3, 4, 5, 7, 1024, 0}[r.Intn(8)]
	sc.Ops = append(sc.Ops, Op{Op: "build", Seg: 1, Batch: 0, Mode: mode})
	seg := 1
	if onehit || r.Intn(4) == 0 {
		sc.Ops = append(sc.Ops, Op{Op: "merge", File: 1, In: []int{1}, Drops: []DropSpec{{Kind: "nil"}}, Mode: []uint32{1, 2, 3, 0}[r.Intn(4)], Buf: 64})
		sc.Ops = append(sc.Ops, Op{Op: "load", File: 1, Seg: 2, Backing: []string{"mem", "file"}[r.Intn(2)]})
		seg = 2
	}
	nIters := 1 + r.Intn(3)
	for k := 0; k < nIters; k++ {
		term := []byte("x")
		if r.Intn(5) == 0 {
			term = []byte("y")
		}
		var except *DropSpec
		switch r.Intn(4) {
		case 0:
		case 1:
			except = &DropSpec{Kind: "set", Docs: []int{}}
		default:
			except = &DropSpec{Kind: "set", Docs: keys(subset(r, n, 0.35))}
		}
		pl, it := 10+k, 20+k
		sc.Ops = append(sc.Ops, Op{Op: "pl_open", Seg: seg, Field: "a", Term: B(term), Except: except, Pl: pl})
		fl := r.Intn(8)
		sc.Ops = append(sc.Ops, Op{Op: "it_open", Pl: pl, It: it, Freq: fl&1 != 0, Norm: fl&2 != 0, Locs: fl&4 != 0})
		if !onehit && seg == 1 && string(term) == "x" && len(in) > 0 && r.Intn(5) == 0 {
			// (only on the built segment: a merge may 1-hit encode a singleton list, and the 1-hit
			// cursor has no actual bitmap to replace - outside the contract of ReplaceActual)
			// ReplaceActual(B), B a subset of the postings, on a fresh general iterator
			bs := []int{}
			for _, d := range keys(in) {
				if r.Intn(2) == 0 {
					bs = append(bs, d)
				}
			}
			sc.Ops = append(sc.Ops, Op{Op: "it_replace", It: it, Docs: bs})
		}
		sc.Ops = walkOps(r, sc.Ops, it, n)
		sc.Ops = append(sc.Ops, Op{Op: "pl_count", Pl: pl})
	}
	return sc
}

// iter_big: adaptive chunk mode with >= 1024 postings (two or three chunks), Advance across boundaries
func genIterBig(r *rand.Rand, i int) Scenario {
	n := []int{1024, 1025, 1100, 2047, 2048, 2049, 2050, 2051, 2100, 3073}[r.Intn(10)] + r.Intn(3)
	in := map[int]bool{}
	dense := r.Intn(3) != 0
	for d := 0; d < n; d++ {
		if dense || r.Intn(10) != 0 {
			in[d] = true
		}
	}
	b := make(Batch, n)
	for d := 0; d < n; d++ {
		doc := Doc{}
		if in[d] {
			occ := TermOcc{Term: B([]byte("x")), Freq: 1 + d%3, Locs: []Loc{}}
			if d%7 == 0 {
				occ.Locs = append(occ.Locs, Loc{Field: "", Pos: 1, Start: d, End: d + 1})
			} else if d%13 == 0 {
				occ.Freq = 64 * (1 + d%4) // multiples of 64 without locations: a two-byte freq/hasLocs varint ending in 0x80-aligned bits
			}
			doc = append(doc, FieldInst{Name: "a", Len: occ.Freq, Value: Bytes{}, Terms: []TermOcc{occ}})
		}
		b[d] = doc
	}
	sc := Scenario{Name: fmt.Sprintf("iter_big-%d", i), NormKind: "code", Universe: []string{"_id", "a"}, Batches: []Batch{b}}
	mode := []uint32{0, 0, 1024, 1025, 100}[r.Intn(5)]
	sc.Ops = append(sc.Ops, Op{Op: "build", Seg: 1, Batch: 0, Mode: mode})
	seg := 1
	if r.Intn(3) == 0 {
		// drops that move the cardinality across the 1024 threshold
		drop := keys(subset(r, n, 0.02))
		sc.Ops = append(sc.Ops, Op{Op: "merge", File: 1, In: []int{1}, Drops: []DropSpec{{Kind: "set", Docs: drop}}, Mode: 0, Buf: 4096})
		sc.Ops = append(sc.Ops, Op{Op: "load", File: 1, Seg: 2, Backing: "mem"})
		seg = 2
		n -= len(drop)
	}
	for k := 0; k < 2; k++ {
		var except *DropSpec
		if r.Intn(2) == 0 {
			ex := []int{}
			for j := 0; j < 20; j++ {
				ex = append(ex, r.Intn(n))
			}
			// first postings of later chunks are the interesting exclusions
			ex = append(ex, n/2, n/2+1, n/3, n/3+1, 2*n/3, 2*n/3+1, 1024, 683, 1366)
			except = &DropSpec{Kind: "set", Docs: ex}
		}
		pl, it := 10+k, 20+k
		sc.Ops = append(sc.Ops, Op{Op: "pl_open", Seg: seg, Field: "a", Term: B([]byte("x")), Except: except, Pl: pl})
		fl := 1 + r.Intn(7)
		sc.Ops = append(sc.Ops, Op{Op: "it_open", Pl: pl, It: it, Freq: fl&1 != 0, Norm: fl&2 != 0, Locs: fl&4 != 0})
		target := 0
		for s := 0; s < 25; s++ {
			switch r.Intn(3) {
			case 0:
				sc.Ops = append(sc.Ops, Op{Op: "it_next", It: it})
			default:
				target += r.Intn(n / 6)
				sc.Ops = append(sc.Ops, Op{Op: "it_adv", It: it, D: target})
				if r.Intn(2) == 0 {
					sc.Ops = append(sc.Ops, Op{Op: "it_next", It: it})
				}
			}
		}
		sc.Ops = append(sc.Ops, Op{Op: "it_adv", It: it, D: n - 2}, Op{Op: "it_next", It: it}, Op{Op: "it_next", It: it}, Op{Op: "it_next", It: it})
	}
	return sc
}

// reuse: histories of lookups that reuse postings lists, iterators, dictionaries across
// terms, encodings and segments (C13)
func genReuse(r *rand.Rand, i int) Scenario {
	cfg := defaultCfg(r)
	cfg.PLocs = 0.6
	sc := Scenario{Name: fmt.Sprintf("reuse-%d", i), NormKind: "code", Universe: universeOf(&cfg)}
	seq := 0
	b1 := genBatch(r, &cfg, &seq)
	b2 := genBatch(r, &cfg, &seq)
	sc.Batches = []Batch{b1, b2}
	sc.Ops = append(sc.Ops,
		Op{Op: "build", Seg: 1, Batch: 0, Mode: []uint32{1, 2, 3, 0}[r.Intn(4)]},
		Op{Op: "build", Seg: 2, Batch: 1, Mode: []uint32{1, 2, 5, 0}[r.Intn(4)]},
		Op{Op: "merge", File: 1, In: []int{1, 2}, Drops: []DropSpec{randDropsNotAll(r, len(b1)), randDropsNotAll(r, len(b2))}, Mode: []uint32{1, 2, 0}[r.Intn(3)], Buf: 64},
		Op{Op: "load", File: 1, Seg: 3, Backing: []string{"mem", "file"}[r.Intn(2)]},
	)
	// vocabulary of lookups
	type ft struct {
		f string
		t []byte
	}
	var vocab []ft
	for _, b := range sc.Batches {
		for f, ts := range b.Terms() {
			for t := range ts {
				vocab = append(vocab, ft{f, []byte(t)})
			}
		}
	}
	vocab = append(vocab, ft{"nosuchfield", []byte("x")}, ft{"a", []byte("absent")})
	sort.Slice(vocab, func(i, j int) bool {
		if vocab[i].f != vocab[j].f {
			return vocab[i].f < vocab[j].f
		}
		return string(vocab[i].t) < string(vocab[j].t)
	})
	live := []int{} // pl handles that may be reused
	liveIt := []int{}
	counts := map[int]int{1: len(b1), 2: len(b2), 3: len(b1) + len(b2)}
	nl := 6 + r.Intn(20)
	for k := 0; k < nl; k++ {
		seg := 1 + r.Intn(3)
		v := vocab[r.Intn(len(vocab))]
		var except *DropSpec
		if r.Intn(3) == 0 {
			except = &DropSpec{Kind: "set", Docs: keys(subset(r, counts[seg]+1, 0.3))}
		}
		pre := 0
		if len(live) > 0 && r.Intn(3) != 0 {
			pre = live[r.Intn(len(live))]
		}
		pl := 100 + k
		if pre != 0 {
			pl = pre // the call returns the preallocated object (or a shared empty list)
		}
		sc.Ops = append(sc.Ops, Op{Op: "pl_open", Seg: seg, Field: v.f, Term: B(v.t), Except: except, Pl: 100 + k, Prealloc: pre, ReuseD: r.Intn(2) == 0})
		_ = pl
		preIt := 0
		if len(liveIt) > 0 && r.Intn(3) != 0 {
			preIt = liveIt[r.Intn(len(liveIt))]
		}
		fl := r.Intn(8)
		// the executor resolves object identity; the scenario names the handle the list got
		sc.Ops = append(sc.Ops, Op{Op: "it_open_last", It: 200 + k, Prealloc: preIt, Freq: fl&1 != 0, Norm: fl&2 != 0, Locs: fl&4 != 0})
		steps := r.Intn(counts[seg] + 3)
		target := 0
		for s := 0; s < steps; s++ {
			if r.Intn(3) == 0 {
				target += r.Intn(3)
				sc.Ops = append(sc.Ops, Op{Op: "it_adv_last", D: target})
			} else {
				sc.Ops = append(sc.Ops, Op{Op: "it_next_last"})
			}
		}
		if len(live) > 0 && r.Intn(2) == 0 {
			// an earlier list is still live (reusing an ITERATOR must not disturb the lists it served)
			old := live[r.Intn(len(live))]
			sc.Ops = append(sc.Ops, Op{Op: "pl_count", Pl: old})
			if r.Intn(2) == 0 {
				sc.Ops = append(sc.Ops, Op{Op: "it_open", Pl: old, It: 400 + k, Freq: true, Norm: true, Locs: true},
					Op{Op: "it_next_last"}, Op{Op: "it_next_last"}, Op{Op: "it_next_last"})
				if r.Intn(2) == 0 {
					liveIt = append(liveIt, 400+k)
				}
			}
		}
		if pre == 0 {
			live = append(live, 100+k)
		}
		if preIt == 0 {
			liveIt = append(liveIt, 200+k)
		}
	}
	// stored-field visits reuse a pooled scratch context: a visit stopped early by its visitor, then a
	// document that stores nothing (or little), then a full one
	bare := []int{}
	for d := range b1 {
		st := 0
		for _, fi := range b1[d] {
			if fi.Stored {
				st++
			}
		}
		if st == 0 {
			bare = append(bare, d)
		}
	}
	for k := 0; k < 6 && len(b1) > 0; k++ {
		sc.Ops = append(sc.Ops, Op{Op: "stored", Seg: 1, N: r.Intn(len(b1)), Stop: 1 + r.Intn(2)})
		if len(bare) > 0 && r.Intn(3) != 0 {
			sc.Ops = append(sc.Ops, Op{Op: "stored", Seg: 1, N: bare[r.Intn(len(bare))]})
		}
		sc.Ops = append(sc.Ops, Op{Op: "stored", Seg: 1, N: r.Intn(len(b1) + 1)})
	}
	// dictionary iterators and doc-value readers used across many lookups
	for k := 0; k < 3; k++ {
		seg := 1 + r.Intn(3)
		sc.Ops = append(sc.Ops, Op{Op: "dict", Seg: seg, Field: pickField(r, &cfg), ReuseD: true})
	}
	fields := universeOf(&cfg)
	sc.Ops = append(sc.Ops, Op{Op: "dv_open", Seg: 3, R: 1, Fields: fields})
	for k := 0; k < 8 && counts[3] > 0; k++ {
		sc.Ops = append(sc.Ops, Op{Op: "dv_visit", R: 1, N: r.Intn(counts[3])})
	}
	return sc
}

func randDropsNotAll(r *rand.Rand, n int) DropSpec {
	d := randDrops(r, n)
	if d.Kind == "set" && len(d.Docs) == n && n > 0 {
		d.Docs = d.Docs[1:]
	}
	return d
}

// stored_sweep: two 128-document blocks; the second block's decompressed size sweeps around
// the first one's, and its last record is as short as possible (no stored field at all).
func genStoredSweep(r *rand.Rand, i int) Scenario {
	delta := i%40 - 10 // size(B) - size(A) sweeps -10..29
	mk := func(n, extra int, lastEmpty bool) Batch {
		b := make(Batch, n)
		for d := 0; d < n; d++ {
			id := []byte(fmt.Sprintf("%04d", d))
			if extra > 0 {
				id = append(id, 'x')
				extra--
			} else if extra < 0 && d%2 == 1 && len(id) > 1 {
				id = id[:3]
				extra++
			}
			b[d] = Doc{{Name: "_id", Len: 1, Stored: true, Value: B(id), Terms: []TermOcc{{Term: B([]byte(fmt.Sprintf("%04d", d))), Freq: 1, Locs: []Loc{}}}}}
		}
		if lastEmpty {
			b[n-1] = Doc{}
		}
		return b
	}
	a := mk(128, 0, false)
	// block B: 128 documents, the last one without any stored field (2-byte record)
	bb := mk(128, delta+7, true) // the empty last record is 7 bytes shorter than a 4-byte-id record
	full := append(append(Batch{}, a...), bb...)
	sc := Scenario{Name: fmt.Sprintf("stored_sweep-%d", i), NormKind: "code", Universe: []string{"_id"}, Batches: []Batch{full}}
	sc.Ops = append(sc.Ops, Op{Op: "build", Seg: 1, Batch: 0, Mode: 0})
	seg := 1
	switch i % 3 {
	case 1:
		sc.Ops = append(sc.Ops, Op{Op: "persist", Seg: 1, File: 1}, Op{Op: "load", File: 1, Seg: 2, Backing: "mem"})
		seg = 2
	case 2:
		sc.Ops = append(sc.Ops, Op{Op: "persist", Seg: 1, File: 1}, Op{Op: "load", File: 1, Seg: 2, Backing: "file"})
		seg = 2
	}
	for _, n := range []int{0, 255, 127, 128, 254, 255, 1, 256, 300} {
		sc.Ops = append(sc.Ops, Op{Op: "stored", Seg: seg, N: n})
	}
	// the merger reads stored fields through the same path (re-encode path: one document dropped)
	sc.Ops = append(sc.Ops, Op{Op: "merge", File: 9, In: []int{seg}, Drops: []DropSpec{{Kind: "set", Docs: []int{5}}}, Mode: 0, Buf: 4096})
	sc.Ops = append(sc.Ops, Op{Op: "load", File: 9, Seg: 9, Backing: "mem"})
	for _, n := range []int{0, 254, 126, 127, 253} {
		sc.Ops = append(sc.Ops, Op{Op: "stored", Seg: 9, N: n})
	}
	return sc
}

// stored_shapes: 0/1/many stored fields, empty values, repeated fields, stop-after-k visitors,
// every document number incl. n >= Count; built, loaded and merged (C06)
func genStoredShapes(r *rand.Rand, i int) Scenario {
	cfg := defaultCfg(r)
	cfg.PStored = 0.8
	cfg.PRepeat = 0.4
	cfg.BigValues = r.Intn(3) == 0
	cfg.MaxDocs = 8
	if r.Intn(4) == 0 {
		cfg.MinDocs, cfg.MaxDocs = 126, 131
		cfg.TermsPerInst = 1
	}
	seq := 0
	b := genBatch(r, &cfg, &seq)
	// a twin batch: same shape and value lengths, different stored bytes (equal block extents, different content)
	twin := make(Batch, len(b))
	for d := range b {
		twin[d] = make(Doc, len(b[d]))
		for k := range b[d] {
			fi := b[d][k]
			v := append(Bytes{}, fi.Value...)
			for x := range v {
				v[x] = (v[x] + 1 + x%3) % 256
			}
			fi.Value = v
			twin[d][k] = fi
		}
	}
	sc := Scenario{Name: fmt.Sprintf("stored_shapes-%d", i), NormKind: "code", Universe: universeOf(&cfg), Batches: []Batch{b, twin}}
	sc.Ops = append(sc.Ops, Op{Op: "build", Seg: 1, Batch: 0, Mode: 0}, Op{Op: "build", Seg: 5, Batch: 1, Mode: 0},
		Op{Op: "persist", Seg: 1, File: 1}, Op{Op: "load", File: 1, Seg: 2, Backing: []string{"mem", "file"}[r.Intn(2)]},
		Op{Op: "merge", File: 2, In: []int{1}, Drops: []DropSpec{randDropsNotAll(r, len(b))}, Mode: 0, Buf: 256},
		Op{Op: "load", File: 2, Seg: 3, Backing: "mem"})
	for k := 0; k < 12; k++ {
		seg := 1 + r.Intn(3)
		n := r.Intn(len(b) + 2)
		if k%4 == 0 && len(b) > 0 {
			n = len(b) - 1
		}
		sc.Ops = append(sc.Ops, Op{Op: "stored", Seg: seg, N: n, Stop: []int{0, 0, 1, 2, 3}[r.Intn(5)]})
		if r.Intn(3) == 0 {
			sc.Ops = append(sc.Ops, Op{Op: "stored", Seg: 5, N: n}) // the twin right after: same extent, other bytes
		}
	}
	{
		// differing field lists: stored values are re-grouped under the merged field numbers
		c2 := cfg
		c2.Fields = []string{"zz", "aa0"}
		c2.MinDocs, c2.MaxDocs = 1, 4
		other := genBatch(r, &c2, &seq)
		sc.Batches = append(sc.Batches, other)
		sc.Universe = append(sc.Universe, "zz", "aa0")
		order := [][]int{{1, 8}, {8, 1}, {8, 1, 5}}[r.Intn(3)]
		dr := make([]DropSpec, len(order))
		for k := range dr {
			dr[k] = DropSpec{Kind: "nil"}
		}
		sc.Ops = append(sc.Ops, Op{Op: "build", Seg: 8, Batch: 2, Mode: 0},
			Op{Op: "merge", File: 6, In: order, Drops: dr, Mode: 0, Buf: 256}, Op{Op: "load", File: 6, Seg: 6, Backing: "mem"})
		for n := 0; n < len(b)*2+len(other) && n < 300; n++ {
			sc.Ops = append(sc.Ops, Op{Op: "stored", Seg: 6, N: n})
		}
	}
	{
		// field lists that agree on a common prefix and continue differently: [_id p..], [_id p.. y], [_id p.. x]
		// with x < y, nothing deleted (the byte-copy path keeps the SOURCE segment's field numbers)
		pool := []string{"fa", "fb", "fc", "fd"}
		p := r.Intn(2)
		mk := func(fields []string, base int) Batch {
			nb := make(Batch, 1+r.Intn(3))
			for d := range nb {
				id := []byte(fmt.Sprintf("q%d", base+d))
				doc := Doc{{Name: "_id", Len: 1, Stored: true, Value: B(id), Terms: []TermOcc{{Term: B(id), Freq: 1, Locs: []Loc{}}}}}
				for _, f := range fields {
					doc = append(doc, FieldInst{Name: f, Len: 1, Stored: true, Value: B([]byte(f + "-value-" + string(id))),
						Terms: []TermOcc{{Term: B([]byte("x")), Freq: 1, Locs: []Loc{}}}})
				}
				nb[d] = doc
			}
			return nb
		}
		pa, pb, pc := mk(pool[:p], 0), mk(append(append([]string{}, pool[:p]...), pool[p+1]), 10), mk(append(append([]string{}, pool[:p]...), pool[p]), 20)
		nb := len(sc.Batches)
		sc.Batches = append(sc.Batches, pa, pb, pc)
		sc.Universe = append(sc.Universe, pool...)
		order := [][]int{{20, 21, 22}, {20, 22, 21}, {21, 20, 22}}[r.Intn(3)]
		sc.Ops = append(sc.Ops, Op{Op: "build", Seg: 20, Batch: nb, Mode: 0}, Op{Op: "build", Seg: 21, Batch: nb + 1, Mode: 0}, Op{Op: "build", Seg: 22, Batch: nb + 2, Mode: 0},
			Op{Op: "merge", File: 23, In: order, Drops: []DropSpec{{Kind: "nil"}, {Kind: "set", Docs: []int{}}, {Kind: "nil"}}, Mode: 0, Buf: 256},
			Op{Op: "load", File: 23, Seg: 23, Backing: "mem"})
		for n := 0; n < len(pa)+len(pb)+len(pc); n++ {
			sc.Ops = append(sc.Ops, Op{Op: "stored", Seg: 23, N: n})
		}
	}
	if len(b) > 1 {
		// the merger walks both twins with one visit context (re-encode path: a document dropped in each)
		sc.Ops = append(sc.Ops, Op{Op: "merge", File: 7, In: []int{1, 5}, Drops: []DropSpec{{Kind: "set", Docs: []int{0}}, {Kind: "set", Docs: []int{len(b) - 1}}}, Mode: 0, Buf: 256},
			Op{Op: "load", File: 7, Seg: 7, Backing: "mem"})
		for n := 0; n < 2*len(b)-2 && n < 300; n++ {
			sc.Ops = append(sc.Ops, Op{Op: "stored", Seg: 7, N: n})
		}
	}
	return sc
}

// dv_walk: doc values across 1024-document chunk boundaries with one reader, any visiting order (C07)
func genDvWalk(r *rand.Rand, i int) Scenario {
	n := []int{1023, 1024, 1025, 1026, 2047, 2048, 2049, 2050, 2100}[r.Intn(9)]
	b := make(Batch, n)
	hot := map[int]bool{}
	for _, c := range []int{0, 1, 511, 1022, 1023, 1024, 1025, 1026, 2046, 2047, 2048, 2049} {
		if c < n {
			hot[c] = true
		}
	}
	for k := 0; k < 30; k++ {
		hot[r.Intn(n)] = true
	}
	// whole 1024-document chunks without any doc value (leading, middle or trailing gaps)
	nchunks := (n + 1023) / 1024
	active := map[int]bool{}
	if i%4 == 0 && nchunks >= 2 {
		// a chunk with values followed by a chunk without any (later ones at random)
		active[0] = true
		for c := 2; c < nchunks; c++ {
			if r.Intn(2) == 0 {
				active[c] = true
			}
		}
	} else if r.Intn(2) == 0 {
		for c := 0; c < nchunks; c++ {
			active[c] = true
		}
	} else {
		for c := 0; c < nchunks; c++ {
			if r.Intn(2) == 0 {
				active[c] = true
			}
		}
		if len(active) == 0 {
			active[nchunks-1] = true
		}
	}
	for d := range hot {
		if !active[d/1024] {
			delete(hot, d)
		}
	}
	if len(hot) == 0 {
		hot[n-1] = true
	}
	tv := [][]byte{[]byte("p"), []byte("q"), []byte("pq"), []byte(""), {0}, []byte("r")}
	for d := 0; d < n; d++ {
		if !hot[d] || r.Intn(6) == 0 {
			b[d] = Doc{} // inert filler (or a hot document without terms)
			continue
		}
		doc := Doc{}
		for _, f := range []string{"a", "b"} {
			if r.Intn(4) == 0 {
				continue
			}
			fi := FieldInst{Name: f, DV: f == "a" || r.Intn(2) == 0, Value: Bytes{}, Terms: []TermOcc{}}
			used := map[int]bool{}
			for k := 0; k < 1+r.Intn(3); k++ {
				ti := r.Intn(len(tv))
				if used[ti] {
					continue
				}
				used[ti] = true
				fi.Terms = append(fi.Terms, TermOcc{Term: B(tv[ti]), Freq: 1, Locs: []Loc{}})
				fi.Len++
			}
			doc = append(doc, fi)
		}
		b[d] = doc
	}
	// dv flags consistent by name inside the scenario: a always, b decided per scenario
	bdv := r.Intn(2) == 0
	for d := range b {
		for k := range b[d] {
			if b[d][k].Name == "b" {
				b[d][k].DV = bdv
			} else {
				b[d][k].DV = true
			}
		}
	}
	sc := Scenario{Name: fmt.Sprintf("dv_walk-%d", i), NormKind: "code", Universe: []string{"_id", "a", "b", "nosuchfield"}, Batches: []Batch{b}}
	if len(active) < nchunks {
		sc.Tags = append(sc.Tags, "dv_chunk_gap")
	}
	sc.Ops = append(sc.Ops, Op{Op: "build", Seg: 1, Batch: 0, Mode: 0})
	seg, cnt := 1, n
	if r.Intn(2) == 0 {
		drop := keys(subset(r, n, 0.01))
		sc.Ops = append(sc.Ops, Op{Op: "merge", File: 1, In: []int{1}, Drops: []DropSpec{{Kind: "set", Docs: drop}}, Mode: 0, Buf: 4096},
			Op{Op: "load", File: 1, Seg: 2, Backing: []string{"mem", "file"}[r.Intn(2)]})
		seg, cnt = 2, n-len(drop)
	}
	fieldSets := [][]string{{"a"}, {"a", "b"}, {"b", "a"}, {"nosuchfield", "a"}, {"b"}, {"_id", "a", "b"}}
	hots := keys(hot)
	type tgt struct{ seg, cnt, r int }
	targets := []tgt{{1, n, 1}}
	if seg != 1 {
		targets = append(targets, tgt{seg, cnt, 2})
	}
	shift := 0
	if i%2 == 0 {
		// the big segment as the SECOND input of a merge: its chunks are renumbered across the 1024 boundaries of the
		// merged segment (and the merger's sequential scan passes its chunk gaps)
		ns := 1 + r.Intn(3)
		small := make(Batch, ns)
		for d := range small {
			small[d] = Doc{{Name: "a", Len: 1, DV: true, Value: Bytes{}, Terms: []TermOcc{{Term: B([]byte("s")), Freq: 1, Locs: []Loc{}}}}}
		}
		sc.Batches = append(sc.Batches, small)
		sc.Ops = append(sc.Ops, Op{Op: "build", Seg: 3, Batch: 1, Mode: 0},
			Op{Op: "merge", File: 2, In: []int{3, 1}, Drops: []DropSpec{{Kind: "nil"}, {Kind: "nil"}}, Mode: 0, Buf: 4096},
			Op{Op: "load", File: 2, Seg: 4, Backing: []string{"mem", "file"}[r.Intn(2)]})
		targets = append(targets, tgt{4, n + ns, 3})
		shift = ns
	}
	for _, t := range targets {
		sc.Ops = append(sc.Ops, Op{Op: "dv_open", Seg: t.seg, R: t.r, Fields: fieldSets[r.Intn(len(fieldSets))]})
		if t.seg == 4 {
			for _, h := range hots {
				sc.Ops = append(sc.Ops, Op{Op: "dv_visit", R: t.r, N: h + shift})
				if len(sc.Ops) > 400 {
					break
				}
			}
			sc.Ops = append(sc.Ops, Op{Op: "dv_visit", R: t.r, N: 0})
		}
		for k := 0; k < 50; k++ {
			var d int
			switch r.Intn(4) {
			case 0:
				d = r.Intn(t.cnt)
			case 1: // boundary ping-pong
				d = []int{1023, 1024, 1022, 1025, 2047, 2048, 0}[r.Intn(7)]
			default:
				d = hots[r.Intn(len(hots))]
				if t.seg != 1 && r.Intn(2) == 0 {
					d -= r.Intn(30) // survivors move down by the number of deletions before them
				}
			}
			if d >= t.cnt {
				d = t.cnt - 1
			}
			if d < 0 {
				d = 0
			}
			sc.Ops = append(sc.Ops, Op{Op: "dv_visit", R: t.r, N: d})
		}
	}
	return sc
}

// dv_small: small segments, merges where only some inputs have doc values for a field
func genDvSmall(r *rand.Rand, i int) Scenario {
	cfg := defaultCfg(r)
	cfg.DvNames = map[string]bool{}
	for _, f := range cfg.Fields {
		if r.Intn(2) == 0 {
			cfg.DvNames[f] = true
		}
	}
	sc := Scenario{Name: fmt.Sprintf("dv_small-%d", i), NormKind: "code", Universe: universeOf(&cfg)}
	seq := 0
	b1 := genBatch(r, &cfg, &seq)
	c2 := cfg
	if len(cfg.Fields) > 1 {
		c2.Fields = cfg.Fields[1:] // the second input lacks a field entirely
	}
	b2 := genBatch(r, &c2, &seq)
	sc.Batches = []Batch{b1, b2}
	sc.Ops = append(sc.Ops, Op{Op: "build", Seg: 1, Batch: 0, Mode: pickMode(r)}, Op{Op: "build", Seg: 2, Batch: 1, Mode: pickMode(r)},
		Op{Op: "merge", File: 1, In: []int{1, 2}, Drops: []DropSpec{randDrops(r, len(b1)), randDrops(r, len(b2))}, Mode: pickMode(r), Buf: 32},
		Op{Op: "load", File: 1, Seg: 3, Backing: "mem"})
	u := universeOf(&cfg)
	for k := 0; k < 3; k++ {
		seg := 1 + r.Intn(3)
		r.Shuffle(len(u), func(i, j int) { u[i], u[j] = u[j], u[i] })
		fs := append([]string{}, u[:1+r.Intn(len(u))]...)
		sc.Ops = append(sc.Ops, Op{Op: "dv_open", Seg: seg, R: k + 1, Fields: fs})
		for j := 0; j < 10; j++ {
			sc.Ops = append(sc.Ops, Op{Op: "dv_visit", R: k + 1, N: r.Intn(12)})
		}
	}
	// ONE field list (the caller's slice object is the same for every call, see doDvOpen) for a reader on every
	// segment in turn, starting with the segment that lacks the list's leading fields
	one := append([]string{"nope"}, cfg.Fields...)
	for k, seg := range []int{2, 1, 3, 2} {
		sc.Ops = append(sc.Ops, Op{Op: "dv_open", Seg: seg, R: 10 + k, Fields: one})
		for j := 0; j < 6; j++ {
			sc.Ops = append(sc.Ops, Op{Op: "dv_visit", R: 10 + k, N: r.Intn(8)})
		}
	}
	return sc
}

// dict_ranges: ranges, automata, Contains, unknown fields on built and merged segments (C08)
func genDictRanges(r *rand.Rand, i int) Scenario {
	cfg := defaultCfg(r)
	cfg.TermsPerInst = 5
	cfg.MaxDocs = 6
	sc := Scenario{Name: fmt.Sprintf("dict_ranges-%d", i), NormKind: "code", Universe: universeOf(&cfg)}
	seq := 0
	b1 := genBatch(r, &cfg, &seq)
	b2 := genBatch(r, &cfg, &seq)
	sc.Batches = []Batch{b1, b2}
	sc.Ops = append(sc.Ops, Op{Op: "build", Seg: 1, Batch: 0, Mode: pickMode(r)}, Op{Op: "build", Seg: 2, Batch: 1, Mode: pickMode(r)},
		Op{Op: "merge", File: 1, In: []int{1, 2}, Drops: []DropSpec{randDropsNotAll(r, len(b1)), randDropsNotAll(r, len(b2))}, Mode: pickMode(r), Buf: 64},
		Op{Op: "load", File: 1, Seg: 3, Backing: []string{"mem", "file"}[r.Intn(2)]})
	keysV := [][]byte{}
	for _, t := range termVocab {
		keysV = append(keysV, t)
	}
	keysV = append(keysV, []byte("d0"), []byte("d1"), []byte("d2"), []byte("m"))
	sort.Slice(keysV, func(i, j int) bool { return string(keysV[i]) < string(keysV[j]) })
	u := universeOf(&cfg)
	for k := 0; k < 14; k++ {
		seg := 1 + r.Intn(3)
		f := u[r.Intn(len(u))]
		var lo, hi *Bound
		a, b := r.Intn(len(keysV)), r.Intn(len(keysV))
		if a > b {
			a, b = b, a
		}
		if r.Intn(3) != 0 && len(keysV[a]) > 0 {
			lo = &Bound{Kind: "key", Key: B(keysV[a])}
		}
		if r.Intn(3) != 0 && len(keysV[b]) > 0 {
			hi = &Bound{Kind: "key", Key: B(keysV[b])}
		}
		var aut *Aut
		switch r.Intn(6) {
		case 0:
			aut = &Aut{Kind: "prefix", P: B(keysV[r.Intn(len(keysV))])}
		case 1:
			aut = &Aut{Kind: "oneof", Terms: []Bytes{B(keysV[r.Intn(len(keysV))]), B(keysV[r.Intn(len(keysV))]), B([]byte("x"))}}
		case 2:
			aut = &Aut{Kind: "all"}
		case 3:
			aut = &Aut{Kind: "none"}
		}
		sc.Ops = append(sc.Ops, Op{Op: "dict", Seg: seg, Field: f, Lo: lo, Hi: hi, Aut: aut})
		if r.Intn(4) == 0 {
			// Close() of one dictionary object: later lookups of the same field (fresh and kept objects) go on
			sc.Ops = append(sc.Ops, Op{Op: "dict_close", Seg: seg, Field: f, ReuseD: r.Intn(2) == 0})
		}
		// Contains and the following PostingsList go to the same Dictionary object in half of the rounds, with keys of
		// equal length in the caller's reused buffer
		same := r.Intn(2) == 0
		t1 := keysV[r.Intn(len(keysV))]
		t2 := keysV[r.Intn(len(keysV))]
		if same && r.Intn(2) == 0 {
			for tries := 0; tries < 8 && len(t2) != len(t1); tries++ {
				t2 = keysV[r.Intn(len(keysV))]
			}
		}
		sc.Ops = append(sc.Ops, Op{Op: "contains", Seg: seg, Field: f, Term: B(t1), ReuseD: same})
		o := Op{Op: "pl_open", Seg: seg, Field: f, Term: B(t2), Pl: 50 + k, ReuseD: same}
		if k > 0 && r.Intn(2) == 0 {
			o.Prealloc = 50 + r.Intn(k) // an earlier list (the handle follows the object)
		}
		sc.Ops = append(sc.Ops, o, Op{Op: "it_open_last", It: 80 + k, Freq: true, Norm: true, Locs: true},
			Op{Op: "it_next_last"}, Op{Op: "it_next_last"})
	}
	return sc
}

// match: DocsMatchingTerms on built, loaded and merged segments (C18)
func genMatch(r *rand.Rand, i int) Scenario {
	cfg := defaultCfg(r)
	sc := Scenario{Name: fmt.Sprintf("match-%d", i), NormKind: "code", Universe: universeOf(&cfg)}
	seq := 0
	b1 := genBatch(r, &cfg, &seq)
	b2 := genBatch(r, &cfg, &seq)
	sc.Batches = []Batch{b1, b2}
	sc.Ops = append(sc.Ops, Op{Op: "build", Seg: 1, Batch: 0, Mode: pickMode(r)}, Op{Op: "build", Seg: 2, Batch: 1, Mode: pickMode(r)},
		Op{Op: "persist", Seg: 1, File: 5}, Op{Op: "load", File: 5, Seg: 4, Backing: "file"},
		Op{Op: "merge", File: 1, In: []int{1, 2}, Drops: []DropSpec{randDropsNotAll(r, len(b1)), randDropsNotAll(r, len(b2))}, Mode: pickMode(r), Buf: 64},
		Op{Op: "load", File: 1, Seg: 3, Backing: "mem"})
	var vocab []Pair
	for _, b := range sc.Batches {
		for f, ts := range b.Terms() {
			for t := range ts {
				vocab = append(vocab, Pair{f, B([]byte(t))})
			}
		}
	}
	sort.Slice(vocab, func(i, j int) bool {
		if vocab[i].Field != vocab[j].Field {
			return vocab[i].Field < vocab[j].Field
		}
		return string(vocab[i].Term.Raw()) < string(vocab[j].Term.Raw())
	})
	extra := []Pair{{"nosuchfield", B([]byte("x"))}, {"", B([]byte("x"))}, {"a", B([]byte("absent"))}, {"_id", B([]byte("d0"))}, {"_id", B([]byte("nope"))}}
	// structured lists: every term of one field, in random order, with repeats - the union is every
	// document that has the field; repeated and co-located terms must not disturb later ones
	byField := map[string][]Pair{}
	for _, v := range vocab {
		byField[v.Field] = append(byField[v.Field], v)
	}
	fnames := []string{}
	for f := range byField {
		fnames = append(fnames, f)
	}
	sort.Strings(fnames)
	for k := 0; k < 4 && len(fnames) > 0; k++ {
		f := fnames[r.Intn(len(fnames))]
		ts := append([]Pair{}, byField[f]...)
		r.Shuffle(len(ts), func(i, j int) { ts[i], ts[j] = ts[j], ts[i] })
		pairs := []Pair{}
		for _, t := range ts {
			pairs = append(pairs, t)
			if r.Intn(2) == 0 {
				pairs = append(pairs, t) // repeated entry
			}
		}
		if r.Intn(2) == 0 {
			pairs = append([]Pair{ts[0]}, pairs...)
		}
		sc.Ops = append(sc.Ops, Op{Op: "match", Seg: 1 + r.Intn(4), Pairs: pairs})
	}
	// second generation: the merged segment (1-hit encoded terms) merged again with a built one, in both orders
	sc.Ops = append(sc.Ops, Op{Op: "merge", File: 8, In: []int{3, 1}, Drops: []DropSpec{{Kind: "nil"}, {Kind: "nil"}}, Mode: pickMode(r), Buf: 64},
		Op{Op: "load", File: 8, Seg: 8, Backing: "mem"},
		Op{Op: "merge", File: 9, In: []int{2, 3}, Drops: []DropSpec{{Kind: "nil"}, {Kind: "nil"}}, Mode: 0, Buf: 64},
		Op{Op: "load", File: 9, Seg: 9, Backing: "mem"})
	{
		// a partner whose field list has the same LENGTH as the first input's and other names throughout
		b4 := make(Batch, len(b2))
		var pairs4 []Pair
		seen4 := map[string]bool{}
		for d := range b2 {
			b4[d] = make(Doc, len(b2[d]))
			for k, fi := range b2[d] {
				if fi.Name != "_id" {
					fi.Name = fi.Name + "q"
					locs := func(ls []Loc) []Loc {
						o := make([]Loc, len(ls))
						for x, l := range ls {
							if l.Field != "" && l.Field != "_id" {
								l.Field = l.Field + "q"
							}
							o[x] = l
						}
						return o
					}
					ts := make([]TermOcc, len(fi.Terms))
					for x, t := range fi.Terms {
						t.Locs = locs(t.Locs)
						ts[x] = t
						key := fi.Name + "\x00" + string(t.Term.Raw())
						if !seen4[key] {
							seen4[key] = true
							pairs4 = append(pairs4, Pair{fi.Name, t.Term})
						}
					}
					fi.Terms = ts
				}
				b4[d][k] = fi
			}
		}
		sc.Batches = append(sc.Batches, b4)
		for _, f := range universeOf(&cfg) {
			if f != "_id" {
				sc.Universe = append(sc.Universe, f+"q")
			}
		}
		sc.Ops = append(sc.Ops, Op{Op: "build", Seg: 15, Batch: len(sc.Batches) - 1, Mode: pickMode(r)},
			Op{Op: "merge", File: 16, In: []int{2, 15}, Drops: []DropSpec{{Kind: "nil"}, {Kind: "nil"}}, Mode: 0, Buf: 64},
			Op{Op: "load", File: 16, Seg: 16, Backing: "mem"})
		sort.Slice(pairs4, func(a, b int) bool {
			if pairs4[a].Field != pairs4[b].Field {
				return pairs4[a].Field > pairs4[b].Field
			}
			return string(pairs4[a].Term.Raw()) < string(pairs4[b].Term.Raw())
		})
		if len(pairs4) > 12 {
			pairs4 = pairs4[:12]
		}
		if len(pairs4) > 0 {
			sc.Ops = append(sc.Ops, Op{Op: "match", Seg: 16, Pairs: pairs4}, Op{Op: "match", Seg: 16, Pairs: pairs4[:1]})
		}
	}
	if len(b1) > 0 {
		// the same segment listed twice, the second time without its first document
		sc.Ops = append(sc.Ops, Op{Op: "merge", File: 13, In: []int{1, 1}, Drops: []DropSpec{{Kind: "nil"}, {Kind: "set", Docs: []int{0}}}, Mode: 0, Buf: 64},
			Op{Op: "load", File: 13, Seg: 13, Backing: "mem"})
		for _, f := range fnames {
			ts := append([]Pair{}, byField[f]...)
			if len(ts) > 10 {
				ts = ts[:10]
			}
			sc.Ops = append(sc.Ops, Op{Op: "match", Seg: 13, Pairs: ts})
		}
	}
	for _, f := range fnames {
		ts := append([]Pair{}, byField[f]...)
		r.Shuffle(len(ts), func(i, j int) { ts[i], ts[j] = ts[j], ts[i] })
		if len(ts) > 12 {
			ts = ts[:12]
		}
		sc.Ops = append(sc.Ops, Op{Op: "match", Seg: 8 + r.Intn(2), Pairs: ts})
		for _, t := range ts[:1+r.Intn(len(ts))] {
			sc.Ops = append(sc.Ops, Op{Op: "match", Seg: 8 + r.Intn(2), Pairs: []Pair{t}})
		}
	}
	for k := 0; k < 10; k++ {
		n := r.Intn(6)
		if k == 0 {
			n = 0
		}
		pairs := []Pair{}
		for j := 0; j < n; j++ {
			if len(vocab) > 0 && r.Intn(3) != 0 {
				pairs = append(pairs, vocab[r.Intn(len(vocab))])
			} else {
				pairs = append(pairs, extra[r.Intn(len(extra))])
			}
		}
		if r.Intn(3) == 0 && len(pairs) > 0 {
			// a caller that closed a dictionary of the segment before (Close is a rarely used method)
			sg := 1 + r.Intn(4)
			sc.Ops = append(sc.Ops, Op{Op: "dict", Seg: sg, Field: pairs[0].Field}, Op{Op: "dict_close", Seg: sg, Field: pairs[0].Field, ReuseD: r.Intn(2) == 0})
		}
		sc.Ops = append(sc.Ops, Op{Op: "match", Seg: 1 + r.Intn(4), Pairs: pairs})
	}
	// long lists (more than 128 entries, cycling through the vocabulary) that end in an unknown field / an absent term
	if len(vocab) > 0 {
		long := []Pair{}
		for k := 0; k < 140+r.Intn(60); k++ {
			long = append(long, vocab[(k*7+r.Intn(3))%len(vocab)])
		}
		sc.Ops = append(sc.Ops, Op{Op: "match", Seg: 1 + r.Intn(4), Pairs: append(append([]Pair{}, long...), Pair{"nosuchfield", B([]byte("x"))})},
			Op{Op: "match", Seg: 1 + r.Intn(4), Pairs: append(append([]Pair{}, long...), Pair{vocab[0].Field, B([]byte("absent-term"))})},
			Op{Op: "match", Seg: 3, Pairs: append([]Pair{{"nosuchfield", B([]byte("x"))}}, long...)})
	}
	// a known field, then the same unknown field twice - the second time with a term that exists in the known field
	for k := 0; k < 3 && len(fnames) > 0; k++ {
		f := fnames[r.Intn(len(fnames))]
		ts := byField[f]
		t1, t2 := ts[r.Intn(len(ts))], ts[r.Intn(len(ts))]
		unk := []string{"nosuchfield", "zzz_unknown"}[r.Intn(2)]
		sc.Ops = append(sc.Ops, Op{Op: "match", Seg: 1 + r.Intn(4), Pairs: []Pair{t1, {unk, B([]byte("qq"))}, {unk, t2.Term}, {unk, t1.Term}}})
	}
	// field names that are prefixes of one another, with terms chosen so that field+term spell the same bytes:
	// (P, S+T) and (P+S, T) are different pairs
	P := []string{"t", "ab", "q_"}[r.Intn(3)]
	S := []string{"x", "_1", "s"}[r.Intn(3)]
	T := []string{"b", "", "xx"}[r.Intn(3)]
	one := func(d int, f string, t string) Doc {
		id := []byte(fmt.Sprintf("m%d", d))
		return Doc{{Name: "_id", Len: 1, Stored: true, Value: B(id), Terms: []TermOcc{{Term: B(id), Freq: 1, Locs: []Loc{}}}},
			{Name: f, Len: 1, Value: Bytes{}, Terms: []TermOcc{{Term: B([]byte(t)), Freq: 1, Locs: []Loc{}}}}}
	}
	b3 := Batch{one(0, P, S+T), one(1, P+S, T), one(2, P, "other"), one(3, P+S, S+T)}
	r.Shuffle(len(b3), func(i, j int) { b3[i], b3[j] = b3[j], b3[i] })
	sc.Batches = append(sc.Batches, b3)
	sc.Universe = append(sc.Universe, P, P+S)
	sc.Ops = append(sc.Ops, Op{Op: "build", Seg: 5, Batch: 2, Mode: pickMode(r)},
		Op{Op: "merge", File: 7, In: []int{5}, Drops: []DropSpec{{Kind: "nil"}}, Mode: pickMode(r), Buf: 64}, Op{Op: "load", File: 7, Seg: 6, Backing: []string{"mem", "file"}[r.Intn(2)]})
	pa, pb := Pair{P, B([]byte(S + T))}, Pair{P + S, B([]byte(T))}
	for _, seg := range []int{5, 6} {
		sc.Ops = append(sc.Ops, Op{Op: "match", Seg: seg, Pairs: []Pair{pa, pb}}, Op{Op: "match", Seg: seg, Pairs: []Pair{pb, pa}},
			Op{Op: "match", Seg: seg, Pairs: []Pair{pb, {P, B([]byte("other"))}, pa, {P + S, B([]byte(S + T))}}})
	}
	return sc
}

// assoc: all-at-once vs bracketings with drops translated through the reported maps, and
// single-segment identity (C17). Drops of a second-level merge are given as "translate".
func genAssoc(r *rand.Rand, i int) Scenario {
	cfg := defaultCfg(r)
	cfg.MaxDocs = 4
	cfg.StatsMode = true
	sc := Scenario{Name: fmt.Sprintf("assoc-%d", i), NormKind: "code", Universe: universeOf(&cfg)}
	seq := 0
	k := 2 + r.Intn(3)
	drops := make([]DropSpec, k)
	lens := make([]int, k)
	for j := 0; j < k; j++ {
		c := cfg
		if r.Intn(3) == 0 && len(cfg.Fields) > 1 {
			c.Fields = cfg.Fields[r.Intn(len(cfg.Fields)):]
		}
		b := genBatch(r, &c, &seq)
		sc.Batches = append(sc.Batches, b)
		lens[j] = len(b)
		sc.Ops = append(sc.Ops, Op{Op: "build", Seg: j + 1, Batch: j, Mode: pickMode(r)})
		drops[j] = randDrops(r, len(b))
	}
	all := make([]int, k)
	for j := range all {
		all[j] = j + 1
	}
	mode := pickMode(r)
	// all at once
	sc.Ops = append(sc.Ops, Op{Op: "merge", File: 50, In: all, Drops: drops, Mode: mode, Buf: 64}, Op{Op: "load", File: 50, Seg: 50, Backing: "mem"})
	// order preserving grouping: [0..s) and [s..k), drops applied at the first level
	s := 1 + r.Intn(k-1)
	sc.Ops = append(sc.Ops,
		Op{Op: "merge", File: 51, In: all[:s], Drops: drops[:s], Mode: pickMode(r), Buf: 16}, Op{Op: "load", File: 51, Seg: 51, Backing: "mem"},
		Op{Op: "merge", File: 52, In: all[s:], Drops: drops[s:], Mode: pickMode(r), Buf: 16}, Op{Op: "load", File: 52, Seg: 52, Backing: "mem"},
		Op{Op: "merge", File: 53, In: []int{51, 52}, Drops: []DropSpec{{Kind: "nil"}, {Kind: "set", Docs: []int{}}}, Mode: mode, Buf: 64}, Op{Op: "load", File: 53, Seg: 53, Backing: "mem"})
	// left group merged WITHOUT drops first; its drops are applied later, translated through the reported map
	nodrop := make([]DropSpec, s)
	for j := range nodrop {
		nodrop[j] = DropSpec{Kind: "nil"}
	}
	sc.Ops = append(sc.Ops,
		Op{Op: "merge", File: 54, In: all[:s], Drops: nodrop, Mode: pickMode(r), Buf: 16}, Op{Op: "load", File: 54, Seg: 54, Backing: "mem"},
		Op{Op: "merge_translated", File: 55, In: append([]int{54}, all[s:]...), Drops: append([]DropSpec{{Kind: "translate", Bm: 54}}, drops[s:]...), Docs: nil, Mode: mode, Buf: 64, Terms: nil, Fields: nil, Pairs: nil, Nested: &Op{Drops: drops[:s]}},
		Op{Op: "load", File: 55, Seg: 55, Backing: "mem"})
	// identity: merging the result alone without deletions
	sc.Ops = append(sc.Ops, Op{Op: "merge", File: 56, In: []int{50}, Drops: []DropSpec{{Kind: "nil"}}, Mode: mode, Buf: 64}, Op{Op: "load", File: 56, Seg: 56, Backing: "mem"})
	for _, h := range []int{50, 53, 55, 56} {
		sc.Ops = append(sc.Ops, Op{Op: "observe", Seg: h, Level: "full"})
	}
	sc.Ops = append(sc.Ops, Op{Op: "same_obs", In: []int{50, 53, 55, 56}})
	return sc
}

// immut: reads, persists and merges with caller-owned bitmaps; digests after every step (C15)
func genImmut(r *rand.Rand, i int) Scenario {
	cfg := defaultCfg(r)
	cfg.MaxDocs = 5
	sc := Scenario{Name: fmt.Sprintf("immut-%d", i), NormKind: "code", Universe: universeOf(&cfg)}
	seq := 0
	b1 := genBatch(r, &cfg, &seq)
	b2 := genBatch(r, &cfg, &seq)
	// a field only the second segment knows: statistics of it are "unknown field" results on the others
	b2 = append(b2, Doc{{Name: "only2", Len: 2, Value: Bytes{}, Terms: []TermOcc{{Term: B([]byte("x")), Freq: 2, Locs: []Loc{}}}}})
	sc.Universe = append(sc.Universe, "only2")
	sc.Batches = []Batch{b1, b2}
	// caller-owned bitmaps; run-heavy contents so that an in-place RunOptimize would change the bytes
	d1, d2 := []int{}, []int{}
	for d := 0; d < len(b1); d++ {
		if r.Intn(2) == 0 {
			d1 = append(d1, d)
		}
	}
	for d := 0; d < len(b2); d++ {
		if r.Intn(3) != 0 {
			d2 = append(d2, d)
		}
	}
	sc.Ops = append(sc.Ops, Op{Op: "build", Seg: 1, Batch: 0, Mode: pickMode(r)}, Op{Op: "build", Seg: 2, Batch: 1, Mode: pickMode(r)},
		Op{Op: "def_bm", Bm: 1, Docs: d1}, Op{Op: "def_bm", Bm: 2, Docs: d2},
		Op{Op: "persist", Seg: 1, File: 1}, Op{Op: "load", File: 1, Seg: 3, Backing: []string{"mem", "file"}[r.Intn(2)]},
		Op{Op: "digest"})
	var vocab []Pair
	for _, b := range sc.Batches {
		for f, ts := range b.Terms() {
			for t := range ts {
				vocab = append(vocab, Pair{f, B([]byte(t))})
			}
		}
	}
	sort.Slice(vocab, func(i, j int) bool {
		if vocab[i].Field != vocab[j].Field {
			return vocab[i].Field < vocab[j].Field
		}
		return string(vocab[i].Term.Raw()) < string(vocab[j].Term.Raw())
	})
	nops := 4 + r.Intn(5)
	for k := 0; k < nops; k++ {
		switch r.Intn(7) {
		case 6:
			// a caller accumulating statistics over segments, starting with one that lacks the field
			f := []string{"only2", "nosuchfield", "_id"}[r.Intn(3)]
			sc.Ops = append(sc.Ops, Op{Op: "stats_merge", Seg: []int{1, 3}[r.Intn(2)], Seg2: 2, Field: f}, Op{Op: "stats", Seg: 1 + r.Intn(3), Field: "nosuchfield"})
		case 0:
			sc.Ops = append(sc.Ops, Op{Op: "merge", File: 10 + k, In: []int{1, 2}, Drops: []DropSpec{{Kind: "bm", Bm: 1}, {Kind: "bm", Bm: 2}}, Mode: pickMode(r), Buf: 64})
		case 1:
			sc.Ops = append(sc.Ops, Op{Op: "merge", File: 10 + k, In: []int{3, 2}, Drops: []DropSpec{{Kind: "bm", Bm: 1}, {Kind: "nil"}}, Mode: pickMode(r), Buf: 64})
		case 2:
			if len(vocab) > 0 {
				v := vocab[r.Intn(len(vocab))]
				sc.Ops = append(sc.Ops, Op{Op: "pl_open", Seg: 1 + 2*r.Intn(2), Field: v.Field, Term: v.Term, Except: &DropSpec{Kind: "bm", Bm: 1}, Pl: 30 + k},
					Op{Op: "it_open_last", It: 60 + k, Freq: true, Norm: true, Locs: true}, Op{Op: "it_next_last"}, Op{Op: "it_next_last"}, Op{Op: "it_adv_last", D: 3})
			}
		case 3:
			sc.Ops = append(sc.Ops, Op{Op: "persist", Seg: 1 + r.Intn(3), File: 40 + k})
		case 4:
			sc.Ops = append(sc.Ops, Op{Op: "observe", Seg: 1 + r.Intn(3), Level: "light"})
		case 5:
			if len(vocab) > 0 {
				sc.Ops = append(sc.Ops, Op{Op: "match", Seg: 1 + r.Intn(3), Pairs: []Pair{vocab[r.Intn(len(vocab))]}})
			}
		}
		if last := sc.Ops[len(sc.Ops)-1]; last.Op == "merge" {
			// overlapping reads of the inputs right after the merge (whatever scratch objects it handed back are handed
			// out again): a visit inside a visit, both ways
			sc.Ops = append(sc.Ops, Op{Op: "stored", Seg: last.In[0], N: 0, Nested: &Op{Op: "stored", Seg: last.In[1], N: 0}},
				Op{Op: "stored", Seg: last.In[1], N: 0, Nested: &Op{Op: "stored", Seg: last.In[0], N: 1, Nested: &Op{Op: "stored", Seg: last.In[0], N: 0}}})
		}
		sc.Ops = append(sc.Ops, Op{Op: "digest"})
	}
	return sc
}

// xver: current writer -> reference reader and reference writer -> current reader (C10)
func genXver(r *rand.Rand, i int) Scenario {
	cfg := defaultCfg(r)
	cfg.MaxDocs = 6
	if r.Intn(6) == 0 {
		cfg.MinDocs, cfg.MaxDocs = 127, 135 // more than one stored block
		cfg.TermsPerInst = 1
	}
	w, rd := "cur", "ref"
	if i%2 == 1 {
		w, rd = "ref", "cur"
	}
	// The pinned reference carries the defects that were repaired in the current tree; C10 is about the
	// format, so the reference is only driven where it is itself correct (DESIGN 6, C10):
	//  - reference writer: no repeated field names (location field names), no zero-survivor merge,
	//    statistics of reference-merged files are not observed;
	//  - reference reader: dictionary entry counts are not observed.
	if w == "ref" {
		cfg.PRepeat = 0
		// the reference MERGER reads stored fields through the defective path too: keep its inputs to one block
		cfg.MinDocs, cfg.MaxDocs = 0, 6
		cfg.TermsPerInst = 3
	}
	sc := Scenario{Name: fmt.Sprintf("xver-%d", i), NormKind: "code", Universe: universeOf(&cfg)}
	seq := 0
	b1 := genBatch(r, &cfg, &seq)
	b2 := genBatch(r, &cfg, &seq)
	if i%4 < 2 && len(b1) > 0 {
		// a stored value that does not compress (pseudo-random bytes, 4-9 KiB): whatever a writer does with
		// incompressible blocks, the other implementation must read it back
		blob := make([]byte, 4100+r.Intn(5000))
		r.Read(blob)
		d := r.Intn(len(b1))
		b1[d] = append(b1[d], FieldInst{Name: "blob", Len: 0, Stored: true, Value: B(blob), Terms: []TermOcc{}})
		sc.Universe = append(sc.Universe, "blob")
	}
	if len(b1) > 0 && i%3 != 2 {
		// a field without a single term (stored only): its dictionary is empty in the file
		d := r.Intn(len(b1))
		b1[d] = append(b1[d], FieldInst{Name: "sonly", Len: 0, Stored: true, Value: B([]byte("kept")), Terms: []TermOcc{}})
		sc.Universe = append(sc.Universe, "sonly")
	}
	sc.Batches = []Batch{b1, b2}
	mode := pickMode(r)
	d1, d2 := randDrops(r, len(b1)), randDrops(r, len(b2))
	survivors := len(b1) + len(b2)
	if w == "ref" {
		d1, d2 = randDropsNotAll(r, len(b1)), randDropsNotAll(r, len(b2))
	}
	if d1.Kind == "set" {
		survivors -= len(d1.Docs)
	}
	if d2.Kind == "set" {
		survivors -= len(d2.Docs)
	}
	sc.Ops = append(sc.Ops,
		Op{Op: "build", Seg: 1, Batch: 0, Mode: mode, Impl: w}, Op{Op: "build", Seg: 2, Batch: 1, Mode: pickMode(r), Impl: w},
		Op{Op: "persist", Seg: 1, File: 1}, Op{Op: "load", File: 1, Seg: 3, Backing: []string{"mem", "file"}[r.Intn(2)], Impl: rd},
		Op{Op: "observe", Seg: 3, Level: "full", NoCount: rd == "ref"},
		Op{Op: "layout", File: 1})
	if rd == "cur" && len(b1) > 0 {
		// a file written by the other implementation as the input of this implementation's merger
		sc.Ops = append(sc.Ops, Op{Op: "merge", File: 5, In: []int{3}, Drops: []DropSpec{{Kind: "nil"}}, Mode: pickMode(r), Buf: 64, Impl: "cur"},
			Op{Op: "load", File: 5, Seg: 5, Backing: "mem", Impl: "cur"}, Op{Op: "observe", Seg: 5, Level: "full", NoStats: true})
	}
	if w == "cur" || survivors > 0 {
		sc.Ops = append(sc.Ops,
			Op{Op: "merge", File: 2, In: []int{1, 2}, Drops: []DropSpec{d1, d2}, Mode: pickMode(r), Buf: 64, Impl: w},
			Op{Op: "load", File: 2, Seg: 4, Backing: "mem", Impl: rd},
			Op{Op: "observe", Seg: 4, Level: "full", NoCount: rd == "ref", NoStats: w == "ref"},
			Op{Op: "layout", File: 2})
	}
	return sc
}

// pool_seq: sequences of builds on the recycled builder; equal inputs must give equal bytes (C14)
func genPoolSeq(r *rand.Rand, i int) Scenario {
	cfg := defaultCfg(r)
	sc := Scenario{Name: fmt.Sprintf("pool_seq-%d", i), NormKind: "code", Universe: universeOf(&cfg)}
	seq := 0
	nb := 2 + r.Intn(3)
	for j := 0; j < nb; j++ {
		c := cfg
		switch r.Intn(4) {
		case 0:
			c.MaxDocs = 12 // larger batch: leaves capacity in the pooled state
			c.TermsPerInst = 5
		case 1:
			c.MaxDocs = 1
		case 2:
			c.DvNames = map[string]bool{} // dv -> no-dv order
		}
		if r.Intn(3) == 0 && len(cfg.Fields) > 1 {
			c.Fields = cfg.Fields[:1+r.Intn(len(cfg.Fields))]
		}
		sc.Batches = append(sc.Batches, genBatch(r, &c, &seq))
	}
	modes := make([]uint32, nb)
	for j := range modes {
		modes[j] = pickMode(r)
	}
	h := 0
	// reference bytes on a cold pool
	for j := 0; j < nb; j++ {
		h++
		sc.Ops = append(sc.Ops, Op{Op: "build", Seg: h, Batch: j, Mode: modes[j], Cold: true})
	}
	// then a history on the warm pool, including failing builds (unknown chunk mode)
	steps := 4 + r.Intn(6)
	for s := 0; s < steps; s++ {
		j := r.Intn(nb)
		h++
		if r.Intn(6) == 0 {
			sc.Ops = append(sc.Ops, Op{Op: "build", Seg: h, Batch: j, Mode: 4000})
			continue
		}
		sc.Ops = append(sc.Ops, Op{Op: "build", Seg: h, Batch: j, Mode: modes[j]})
		if r.Intn(4) == 0 {
			sc.Ops = append(sc.Ops, Op{Op: "observe", Seg: h, Level: "full"})
		}
	}
	return sc
}

// xver_big: terms whose cardinality sits on the format's chunking constants (exact multiples of 1024,
// +-1) in segments of 1024..3073 documents, written by one implementation and read by the other (C10)
func genXverBig(r *rand.Rand, i int) Scenario {
	card := []int{1024, 1024, 2048, 1023, 1025, 2047, 3072}[i%7]
	n := card + []int{0, 0, 1, 5, 1024}[r.Intn(5)]
	w, rd := "cur", "ref"
	if (i/7)%2 == 1 {
		w, rd = "ref", "cur"
	}
	b := make(Batch, n)
	for d := 0; d < n; d++ {
		doc := Doc{}
		if d < card {
			occ := TermOcc{Term: B([]byte("x")), Freq: 1 + d%3, Locs: []Loc{}}
			if d%5 == 0 {
				occ.Locs = append(occ.Locs, Loc{Field: "", Pos: 1, Start: d, End: d + 1})
			}
			doc = append(doc, FieldInst{Name: "a", Len: occ.Freq, Value: Bytes{}, Terms: []TermOcc{occ}, DV: d%2 == 0})
		}
		b[d] = doc
	}
	// doc-value flag by name
	for d := range b {
		for k := range b[d] {
			b[d][k].DV = true
		}
	}
	sc := Scenario{Name: fmt.Sprintf("xver_big-%d", i), NormKind: "code", Universe: []string{"_id", "a"}, Batches: []Batch{b}}
	sc.Ops = append(sc.Ops, Op{Op: "build", Seg: 1, Batch: 0, Mode: 0, Impl: w},
		Op{Op: "persist", Seg: 1, File: 1}, Op{Op: "layout", File: 1},
		Op{Op: "load", File: 1, Seg: 2, Backing: "mem", Impl: rd})
	seg := 2
	if r.Intn(2) == 0 {
		// merged output with the same kind of cardinality (a few documents without the term are dropped)
		drop := []int{}
		for d := card; d < n && len(drop) < 3; d++ {
			drop = append(drop, d)
		}
		sc.Ops = append(sc.Ops, Op{Op: "merge", File: 2, In: []int{1}, Drops: []DropSpec{{Kind: "set", Docs: drop}}, Mode: 0, Buf: 4096, Impl: w},
			Op{Op: "layout", File: 2}, Op{Op: "load", File: 2, Seg: 3, Backing: "mem", Impl: rd})
		seg = 3
	}
	sc.Ops = append(sc.Ops, Op{Op: "pl_open", Seg: seg, Field: "a", Term: B([]byte("x")), Pl: 10},
		Op{Op: "it_open", Pl: 10, It: 20, Freq: true, Norm: true, Locs: true})
	for k := 0; k < card+1; k++ {
		sc.Ops = append(sc.Ops, Op{Op: "it_next", It: 20})
	}
	sc.Ops = append(sc.Ops, Op{Op: "dv_open", Seg: seg, R: 1, Fields: []string{"a"}})
	for _, d := range []int{0, 1023, 1024, card - 1, n - 1, 511} {
		if d >= 0 && d < n {
			sc.Ops = append(sc.Ops, Op{Op: "dv_visit", R: 1, N: d})
		}
	}
	return sc
}

// reuse_pairs: the predecessor/successor matrix of C13, enumerated: the kind of list an object served
// before (1-hit, general multi-chunk, general with locations, absent term, unknown field), how far its
// iterator got (fresh, mid, drained), the kind of list it serves next, and which objects are reused
// (the list, the iterator, both). Index i walks the matrix deterministically.
func genReusePairs(r *rand.Rand, i int) Scenario {
	kinds := []Pair{
		{"a", B([]byte("z"))},      // 1-hit in the merged segment
		{"a", B([]byte("x"))},      // general, several chunks under mode 1/2
		{"a", B([]byte("y"))},      // general, one posting with locations
		{"a", B([]byte("nope"))},   // absent term
		{"nosuch", B([]byte("x"))}, // unknown field
		{"_id", B([]byte("d1"))},   // 1-hit
	}
	nk := len(kinds)
	pred, state, succ, combo := i%nk, (i/nk)%3, (i/(nk*3))%nk, (i/(nk*3*nk))%3
	loc := []Loc{{Field: "", Pos: 1, Start: 0, End: 3}}
	mk := func(d int, terms []TermOcc) Doc {
		id := []byte(fmt.Sprintf("d%d", d))
		l := 0
		for _, t := range terms {
			l += t.Freq
		}
		return Doc{{Name: "_id", Len: 1, Stored: true, Value: B(id), Terms: []TermOcc{{Term: B(id), Freq: 1, Locs: []Loc{}}}},
			{Name: "a", Len: l, Value: Bytes{}, Terms: terms}}
	}
	b := Batch{
		mk(0, []TermOcc{{Term: B([]byte("x")), Freq: 1, Locs: []Loc{}}, {Term: B([]byte("y")), Freq: 2, Locs: loc}}),
		mk(1, []TermOcc{{Term: B([]byte("x")), Freq: 2, Locs: loc}}),
		mk(2, []TermOcc{{Term: B([]byte("z")), Freq: 1, Locs: []Loc{}}}),
		mk(3, []TermOcc{{Term: B([]byte("x")), Freq: 1, Locs: []Loc{}}}),
	}
	sc := Scenario{Name: fmt.Sprintf("reuse_pairs-%d", i), NormKind: "code", Universe: []string{"_id", "a", "nosuch"}, Batches: []Batch{b},
		Tags: []string{"reuse_pairs"}}
	mode := []uint32{1, 2, 0}[i%3]
	sc.Ops = append(sc.Ops, Op{Op: "build", Seg: 1, Batch: 0, Mode: mode},
		Op{Op: "merge", File: 1, In: []int{1}, Drops: []DropSpec{{Kind: "nil"}}, Mode: mode, Buf: 64},
		Op{Op: "load", File: 1, Seg: 2, Backing: []string{"mem", "file"}[(i/7)%2]})
	seg1, seg2 := 2, 2
	if (i/5)%4 == 0 {
		seg2 = 1 // across segments: merged predecessor, built successor
	}
	fl := (i / 11) % 8
	sc.Ops = append(sc.Ops, Op{Op: "pl_open", Seg: seg1, Field: kinds[pred].Field, Term: kinds[pred].Term, Pl: 10},
		Op{Op: "it_open", Pl: 10, It: 20, Freq: true, Norm: true, Locs: true})
	switch state {
	case 1:
		sc.Ops = append(sc.Ops, Op{Op: "it_next", It: 20})
	case 2:
		for k := 0; k < 5; k++ {
			sc.Ops = append(sc.Ops, Op{Op: "it_next", It: 20})
		}
	}
	o := Op{Op: "pl_open", Seg: seg2, Field: kinds[succ].Field, Term: kinds[succ].Term, Pl: 11}
	if combo != 1 {
		o.Prealloc = 10
	}
	if i%2 == 0 {
		o.Except = &DropSpec{Kind: "set", Docs: []int{1}}
	}
	sc.Ops = append(sc.Ops, o)
	it := Op{Op: "it_open_last", It: 21, Freq: fl&1 != 0, Norm: fl&2 != 0, Locs: fl&4 != 0}
	if combo != 0 {
		it.Prealloc = 20
	}
	sc.Ops = append(sc.Ops, it)
	for k := 0; k < 4; k++ {
		sc.Ops = append(sc.Ops, Op{Op: "it_next_last"})
	}
	sc.Ops = append(sc.Ops, Op{Op: "it_adv_last", D: 3}, Op{Op: "pl_count", Pl: 10}, Op{Op: "pl_count", Pl: 11})
	if combo == 1 {
		// the predecessor list was not reused: it is still live and must be unchanged
		sc.Ops = append(sc.Ops, Op{Op: "it_open", Pl: 10, It: 22, Freq: true, Norm: true, Locs: true},
			Op{Op: "it_next", It: 22}, Op{Op: "it_next", It: 22}, Op{Op: "it_next", It: 22})
	}
	return sc
}

// pool_big: the recycled builder after a batch that needs more than one doc-value chunk (> 1024 documents),
// then small batches: equal inputs must still give equal bytes (C14)
func genPoolBig(r *rand.Rand, i int) Scenario {
	big := make(Batch, 1025+r.Intn(1100))
	for d := range big {
		if d%97 == 0 || d > len(big)-3 {
			big[d] = Doc{{Name: "a", Len: 1, DV: true, Value: Bytes{}, Terms: []TermOcc{{Term: B([]byte(fmt.Sprintf("t%d", d%5))), Freq: 1, Locs: []Loc{}}}}}
		} else {
			big[d] = Doc{}
		}
	}
	cfg := defaultCfg(r)
	cfg.DvNames = map[string]bool{"a": true, "b": true}
	cfg.Fields = []string{"a", "b"}
	seq := 0
	small1 := genBatch(r, &cfg, &seq)
	small2 := genBatch(r, &cfg, &seq)
	sc := Scenario{Name: fmt.Sprintf("pool_big-%d", i), NormKind: "code", Universe: []string{"_id", "a", "b"}, Batches: []Batch{big, small1, small2},
		Tags: []string{"pool_big"}}
	sc.Ops = append(sc.Ops,
		Op{Op: "build", Seg: 1, Batch: 1, Mode: 0, Cold: true}, Op{Op: "build", Seg: 2, Batch: 2, Mode: 0, Cold: true},
		Op{Op: "build", Seg: 3, Batch: 0, Mode: 0, Cold: true},
		Op{Op: "build", Seg: 4, Batch: 1, Mode: 0}, Op{Op: "build", Seg: 5, Batch: 2, Mode: 0},
		Op{Op: "build", Seg: 6, Batch: 0, Mode: 0}, Op{Op: "build", Seg: 7, Batch: 1, Mode: 0})
	return sc
}

// build_big: batches whose size and whose dense term's cardinality sit on the chunking constants
// (1023 / 1024 / 1025 / 2047 / 2048 / 2049 / 3072 documents; the term in all, all but one, exactly 1024...),
// enumerated by index; adaptive and legacy chunk modes; every posting drained (C01, C05, C02 with a merge)
func genBuildBig(r *rand.Rand, i int) Scenario {
	ns := []int{1024, 1023, 1025, 2048, 2047, 2049, 3072}
	n := ns[i%len(ns)]
	cards := []int{n, n - 1, 1024, 1023, 1025, n / 2}
	card := cards[(i/len(ns))%len(cards)]
	if card > n {
		card = n
	}
	b := make(Batch, n)
	skip := n - card // documents without the term, spread: first ones, or around the middle
	for d := 0; d < n; d++ {
		has := d >= skip
		if (i/3)%2 == 1 {
			has = d < n/2 || d >= n/2+skip
		}
		doc := Doc{}
		if has {
			occ := TermOcc{Term: B([]byte("x")), Freq: 1 + d%3, Locs: []Loc{}}
			if d%5 == 0 {
				occ.Locs = append(occ.Locs, Loc{Field: "", Pos: 1, Start: d, End: d + 1})
			}
			doc = append(doc, FieldInst{Name: "a", Len: occ.Freq, Value: Bytes{}, Terms: []TermOcc{occ}})
		}
		b[d] = doc
	}
	sc := Scenario{Name: fmt.Sprintf("build_big-%d", i), NormKind: "code", Universe: []string{"_id", "a"}, Batches: []Batch{b},
		Tags: []string{"build_big"}}
	mode := []uint32{0, 0, 1025, 1024}[(i/2)%4]
	sc.Ops = append(sc.Ops, Op{Op: "build", Seg: 1, Batch: 0, Mode: mode})
	seg := 1
	if (i/7)%3 == 2 {
		sc.Ops = append(sc.Ops, Op{Op: "merge", File: 1, In: []int{1}, Drops: []DropSpec{{Kind: "nil"}}, Mode: 0, Buf: 4096},
			Op{Op: "load", File: 1, Seg: 2, Backing: "mem"})
		seg = 2
	}
	sc.Ops = append(sc.Ops, Op{Op: "dict", Seg: seg, Field: "a"},
		Op{Op: "pl_open", Seg: seg, Field: "a", Term: B([]byte("x")), Pl: 10},
		Op{Op: "it_open", Pl: 10, It: 20, Freq: true, Norm: true, Locs: true})
	for k := 0; k < card+1; k++ {
		sc.Ops = append(sc.Ops, Op{Op: "it_next", It: 20})
	}
	// and a second pass that jumps across the chunk boundaries
	sc.Ops = append(sc.Ops, Op{Op: "it_open", Pl: 10, It: 21, Freq: true, Norm: true, Locs: false})
	for _, d := range []int{1, 511, 512, 513, 682, 683, 684, 1023, 1024, 1025, 1365, 1366, 2047, 2048, 2049, n - 1, n} {
		if d <= n {
			sc.Ops = append(sc.Ops, Op{Op: "it_adv", It: 21, D: d})
		}
	}
	return sc
}

// many_fields: 70..140 field names (field ids beyond 64 and 128), multi-valued late-sorting fields, merges of
// segments with different subsets of them (C01, C02, C16)
func genManyFields(r *rand.Rand, i int) Scenario {
	nf := 70 + r.Intn(70)
	if i%2 == 0 {
		nf = 126 + r.Intn(14) // field ids on both sides of 127/128: two-byte varints in location records
	}
	names := make([]string, nf)
	for k := range names {
		names[k] = fmt.Sprintf("f%03d", k)
	}
	mk := func(lo, hi int) Batch {
		nd := 2 + r.Intn(3)
		b := make(Batch, nd)
		for d := 0; d < nd; d++ {
			id := []byte(fmt.Sprintf("m%d", r.Intn(1000)))
			doc := Doc{{Name: "_id", Len: 1, Stored: true, Value: B(id), Terms: []TermOcc{{Term: B(id), Freq: 1, Locs: []Loc{}}}}}
			for k := lo; k < hi; k++ {
				edge := k == 126 || k == 127 // field ids 127 and 128: the one/two-byte varint boundary
				if r.Intn(3) == 0 && !edge {
					continue
				}
				reps := 1
				if r.Intn(4) == 0 {
					reps = 2 + r.Intn(2) // multi-valued
				}
				for q := 0; q < reps; q++ {
					t := termVocab[r.Intn(4)]
					locs := []Loc{}
					if r.Intn(3) == 0 || edge {
						lf := "" // the field itself, or another field by name
						if r.Intn(3) == 0 {
							lf = doc[r.Intn(len(doc))].Name // a field this batch certainly has
						}
						locs = append(locs, Loc{Field: lf, Pos: q + 1, Start: 0, End: 1})
					}
					doc = append(doc, FieldInst{Name: names[k], Len: 1, Stored: r.Intn(4) == 0, Value: B([]byte("v")),
						Terms: []TermOcc{{Term: B(t), Freq: 1, Locs: locs}}})
				}
			}
			b[d] = doc
		}
		return b
	}
	b1 := mk(0, nf)
	b2 := mk(nf/3, nf)
	sc := Scenario{Name: fmt.Sprintf("many_fields-%d", i), NormKind: "code", Universe: append([]string{"_id", "nosuchfield"}, names...),
		Batches: []Batch{b1, b2}, Tags: []string{"many_fields"}}
	sc.Ops = append(sc.Ops, Op{Op: "build", Seg: 1, Batch: 0, Mode: pickMode(r)}, Op{Op: "build", Seg: 2, Batch: 1, Mode: pickMode(r)},
		Op{Op: "observe", Seg: 1, Level: "light"},
		Op{Op: "persist", Seg: 1, File: 1}, Op{Op: "load", File: 1, Seg: 3, Backing: "file"}, Op{Op: "observe", Seg: 3, Level: "light"},
		Op{Op: "merge", File: 2, In: []int{1, 2}, Drops: []DropSpec{randDropsNotAll(r, len(b1)), randDrops(r, len(b2))}, Mode: pickMode(r), Buf: 256},
		Op{Op: "load", File: 2, Seg: 4, Backing: "mem"}, Op{Op: "observe", Seg: 4, Level: []string{"full", "light"}[i%2]})
	for k := 0; k < 6; k++ {
		f := names[nf-1-r.Intn(10)]
		if nf > 128 && k%2 == 0 {
			f = names[122+r.Intn(nf-122)]
		}
		for _, seg := range []int{1, 4} {
			sc.Ops = append(sc.Ops, Op{Op: "pl_open", Seg: seg, Field: f, Term: B(termVocab[r.Intn(4)]), Pl: 10 + k},
				Op{Op: "it_open_last", It: 40 + k, Freq: true, Norm: true, Locs: true}, Op{Op: "it_next_last"}, Op{Op: "it_next_last"})
		}
	}
	for n := 0; n < len(b1)+len(b2); n++ {
		sc.Ops = append(sc.Ops, Op{Op: "stored", Seg: 4, N: n})
	}
	return sc
}

// roundtrip_big: document counts on and around the multiples of the stored block size (128) and of the
// doc-value chunk size (1024); built and merged; loaded memory- and file-backed (C04, C10, C11)
func genRoundtripBig(r *rand.Rand, i int) Scenario {
	ns := []int{128, 127, 129, 256, 255, 257, 384, 1024, 1023, 1025, 512}
	n := ns[i%len(ns)]
	mk := func(n, base int) Batch {
		b := make(Batch, n)
		for d := 0; d < n; d++ {
			id := []byte(fmt.Sprintf("%05d", base+d))
			doc := Doc{{Name: "_id", Len: 1, Stored: true, Value: B(id), Terms: []TermOcc{{Term: B(id), Freq: 1, Locs: []Loc{}}}}}
			if d%50 == 0 {
				doc = append(doc, FieldInst{Name: "a", Len: 1, DV: true, Value: Bytes{}, Terms: []TermOcc{{Term: B([]byte("t")), Freq: 1, Locs: []Loc{}}}})
			}
			b[d] = doc
		}
		return b
	}
	sc := Scenario{Name: fmt.Sprintf("roundtrip_big-%d", i), NormKind: "code", Universe: []string{"_id", "a"}, Tags: []string{"roundtrip_big"}}
	var seg int
	if (i/len(ns))%2 == 0 {
		sc.Batches = []Batch{mk(n, 0)}
		sc.Ops = append(sc.Ops, Op{Op: "build", Seg: 1, Batch: 0, Mode: 0}, Op{Op: "persist", Seg: 1, File: 1})
		seg = 1
	} else {
		// a merge whose survivors number exactly n
		sc.Batches = []Batch{mk(n/2+2, 0), mk(n-n/2+2, 10000)}
		sc.Ops = append(sc.Ops, Op{Op: "build", Seg: 1, Batch: 0, Mode: 0}, Op{Op: "build", Seg: 2, Batch: 1, Mode: 0},
			Op{Op: "merge", File: 1, In: []int{1, 2}, Drops: []DropSpec{{Kind: "set", Docs: []int{0, 1}}, {Kind: "set", Docs: []int{0, 1}}}, Mode: 0, Buf: 4096})
		seg = 0
	}
	_ = seg
	sc.Ops = append(sc.Ops, Op{Op: "layout", File: 1},
		Op{Op: "load", File: 1, Seg: 5, Backing: "mem"}, Op{Op: "load", File: 1, Seg: 6, Backing: "file"},
		Op{Op: "load", File: 1, Seg: 7, Backing: "mem", Impl: "ref"})
	for _, s := range []int{5, 6, 7} {
		sc.Ops = append(sc.Ops, Op{Op: "fields", Seg: s}, Op{Op: "dict", Seg: s, Field: "a", NoCount: s == 7})
		for _, d := range []int{0, 1, 126, 127, 128, 129, 255, 256, n - 2, n - 1, n, n + 1} {
			if d >= 0 {
				sc.Ops = append(sc.Ops, Op{Op: "stored", Seg: s, N: d})
			}
		}
		sc.Ops = append(sc.Ops, Op{Op: "dv_open", Seg: s, R: s, Fields: []string{"a"}}, Op{Op: "dv_visit", R: s, N: 0},
			Op{Op: "dv_visit", R: s, N: n - 1}, Op{Op: "dv_visit", R: s, N: 50})
	}
	sc.Ops = append(sc.Ops, Op{Op: "persist", Seg: 5, File: 2}, Op{Op: "persist", Seg: 6, File: 3})
	return sc
}

// twin_merge: segments with identical layout (same shapes and byte sizes, hence equal file offsets) but
// different content - frequencies and stored bytes differ - merged together in several bracketings (C02, C17)
func genTwinMerge(r *rand.Rand, i int) Scenario {
	cfg := defaultCfg(r)
	cfg.MinDocs, cfg.MaxDocs = 1, 4
	cfg.StatsMode = true
	cfg.PEmptyDoc, cfg.PNoID = 0, 0
	seq := 0
	b := genBatch(r, &cfg, &seq)
	twin := func(delta int) Batch {
		t := make(Batch, len(b))
		for d := range b {
			t[d] = make(Doc, len(b[d]))
			for k := range b[d] {
				fi := b[d][k]
				ts := make([]TermOcc, len(fi.Terms))
				l := 0
				for x, o := range fi.Terms {
					o.Freq += delta // still a one-byte varint; same number of locations
					ts[x] = o
					l += o.Freq
				}
				fi.Terms = ts
				fi.Len = l
				v := append(Bytes{}, fi.Value...)
				for x := range v {
					v[x] = (v[x] + delta) % 256
				}
				fi.Value = v
				t[d][k] = fi
			}
		}
		return t
	}
	sc := Scenario{Name: fmt.Sprintf("twin_merge-%d", i), NormKind: "code", Universe: universeOf(&cfg), Batches: []Batch{b, twin(1), twin(2)},
		Tags: []string{"twin_merge"}}
	mode := pickMode(r)
	sc.Ops = append(sc.Ops, Op{Op: "build", Seg: 1, Batch: 0, Mode: mode}, Op{Op: "build", Seg: 2, Batch: 1, Mode: mode}, Op{Op: "build", Seg: 3, Batch: 2, Mode: mode})
	nd := func(k int) []DropSpec {
		d := make([]DropSpec, k)
		for x := range d {
			d[x] = DropSpec{Kind: "nil"}
		}
		return d
	}
	om := pickMode(r)
	sc.Ops = append(sc.Ops,
		Op{Op: "merge", File: 10, In: []int{1, 2, 3}, Drops: nd(3), Mode: om, Buf: 64}, Op{Op: "load", File: 10, Seg: 10, Backing: "mem"},
		Op{Op: "merge", File: 11, In: []int{1, 2}, Drops: nd(2), Mode: om, Buf: 64}, Op{Op: "load", File: 11, Seg: 11, Backing: "mem"},
		Op{Op: "merge", File: 12, In: []int{11, 3}, Drops: nd(2), Mode: om, Buf: 64}, Op{Op: "load", File: 12, Seg: 12, Backing: "mem"},
		Op{Op: "merge", File: 13, In: []int{2, 3}, Drops: nd(2), Mode: om, Buf: 64}, Op{Op: "load", File: 13, Seg: 13, Backing: "mem"},
		Op{Op: "merge", File: 14, In: []int{1, 13}, Drops: nd(2), Mode: om, Buf: 64}, Op{Op: "load", File: 14, Seg: 14, Backing: "mem"},
		Op{Op: "observe", Seg: 10, Level: "full"}, Op{Op: "observe", Seg: 12, Level: "full"}, Op{Op: "observe", Seg: 14, Level: "full"},
		Op{Op: "same_obs", In: []int{10, 12, 14}})
	return sc
}

// dict_interleave: several dictionary iterators of ONE dictionary object alive at the same time, stepped
// alternately (C08, C13)
func genDictInterleave(r *rand.Rand, i int) Scenario {
	cfg := defaultCfg(r)
	cfg.TermsPerInst = 6
	cfg.MinDocs, cfg.MaxDocs = 2, 6
	sc := Scenario{Name: fmt.Sprintf("dict_interleave-%d", i), NormKind: "code", Universe: universeOf(&cfg), Tags: []string{"dict_interleave"}}
	seq := 0
	b1 := genBatch(r, &cfg, &seq)
	sc.Batches = []Batch{b1}
	sc.Ops = append(sc.Ops, Op{Op: "build", Seg: 1, Batch: 0, Mode: pickMode(r)},
		Op{Op: "merge", File: 1, In: []int{1}, Drops: []DropSpec{{Kind: "nil"}}, Mode: pickMode(r), Buf: 64}, Op{Op: "load", File: 1, Seg: 2, Backing: "mem"})
	keysV := [][]byte{[]byte("w"), []byte("x"), []byte("xy"), []byte("y"), []byte("z"), {0}, []byte("d1")}
	// bounded scans (both bounds given) opened, advanced and finished in every order: a scan that ends while others
	// are under way, then a new bounded scan, then the old ones continue
	for round := 0; round < 2; round++ {
		seg := 1 + r.Intn(2)
		f := cfg.Fields[r.Intn(len(cfg.Fields))]
		open := []int{}
		nextR := 100*(round+1) + 50
		for act := 0; act < 26; act++ {
			if len(open) == 0 || (len(open) < 4 && r.Intn(4) == 0) {
				a, b := r.Intn(len(keysV)), r.Intn(len(keysV))
				ka, kb := keysV[a], keysV[b]
				if string(ka) > string(kb) {
					ka, kb = kb, ka
				}
				o := Op{Op: "dit_open", Seg: seg, Field: f, R: nextR, ReuseD: true}
				if r.Intn(4) != 0 && len(ka) > 0 && len(kb) > 0 {
					o.Lo, o.Hi = &Bound{Kind: "key", Key: B(ka)}, &Bound{Kind: "key", Key: B(kb)}
				} else if r.Intn(2) == 0 && len(ka) > 0 {
					o.Lo = &Bound{Kind: "key", Key: B(ka)}
				}
				sc.Ops = append(sc.Ops, o)
				open = append(open, nextR)
				nextR++
				continue
			}
			sc.Ops = append(sc.Ops, Op{Op: "dit_next", R: open[r.Intn(len(open))]})
		}
		for _, h := range open {
			for s := 0; s < 8; s++ {
				sc.Ops = append(sc.Ops, Op{Op: "dit_next", R: h})
			}
		}
	}
	for round := 0; round < 3; round++ {
		seg := 1 + r.Intn(2)
		f := cfg.Fields[r.Intn(len(cfg.Fields))]
		if r.Intn(4) == 0 {
			f = "_id"
		}
		nit := 2 + r.Intn(2)
		for k := 0; k < nit; k++ {
			o := Op{Op: "dit_open", Seg: seg, Field: f, R: 10*round + k + 1, ReuseD: true}
			if r.Intn(2) == 0 {
				o.Lo = &Bound{Kind: "key", Key: B(keysV[r.Intn(len(keysV))])}
			}
			if r.Intn(3) == 0 {
				o.Aut = &Aut{Kind: "prefix", P: B(keysV[r.Intn(len(keysV))])}
			}
			sc.Ops = append(sc.Ops, o)
			for s := 0; s < r.Intn(3); s++ {
				sc.Ops = append(sc.Ops, Op{Op: "dit_next", R: 10*round + 1 + r.Intn(k+1)})
			}
		}
		for s := 0; s < 14; s++ {
			sc.Ops = append(sc.Ops, Op{Op: "dit_next", R: 10*round + 1 + r.Intn(nit)})
		}
	}
	// iterators over nothing (unknown field, empty range) are closed; later ones of the same kinds - on either
	// segment - and a live one still end quietly / deliver their entries
	u := universeOf(&cfg)
	f0 := u[r.Intn(len(u))]
	k0 := B([]byte("m"))
	sc.Ops = append(sc.Ops,
		Op{Op: "dit_open", Seg: 1, Field: f0, R: 90, ReuseD: true},
		Op{Op: "dit_open", Seg: 1, Field: "nosuchfield", R: 91, ReuseD: true}, Op{Op: "dit_next", R: 91}, Op{Op: "dit_close", R: 91},
		Op{Op: "dit_open", Seg: 2, Field: "nosuchfield", R: 92, ReuseD: true}, Op{Op: "dit_next", R: 92},
		Op{Op: "dit_open", Seg: 1, Field: f0, Lo: &Bound{Kind: "key", Key: k0}, Hi: &Bound{Kind: "key", Key: k0}, R: 93, ReuseD: true}, Op{Op: "dit_next", R: 93}, Op{Op: "dit_close", R: 93},
		Op{Op: "dit_open", Seg: 2, Field: f0, Lo: &Bound{Kind: "key", Key: k0}, Hi: &Bound{Kind: "key", Key: k0}, R: 94, ReuseD: true}, Op{Op: "dit_next", R: 94},
		Op{Op: "dit_open", Seg: 1, Field: "otherunknown", R: 95}, Op{Op: "dit_next", R: 95}, Op{Op: "dit_next", R: 95},
		Op{Op: "dit_next", R: 90}, Op{Op: "dit_close", R: 90}, Op{Op: "dit_next", R: 92}, Op{Op: "dit_next", R: 94},
		Op{Op: "dict", Seg: 1, Field: "nosuchfield"}, Op{Op: "dict", Seg: 2, Field: f0, Lo: &Bound{Kind: "key", Key: k0}, Hi: &Bound{Kind: "key", Key: k0}})
	return sc
}

// extremes: shapes a small random batch never has - field names and terms longer than 127 bytes (two-byte
// length varints), hundreds of distinct terms in one field, hundreds of locations in one posting, positions
// and offsets near 2^31, frequencies needing two varint bytes, stored values of tens of kilobytes (C01, C02, C04, C06)
func genExtremes(r *rand.Rand, i int) Scenario {
	long := func(prefix string, n int) []byte {
		b := []byte(prefix)
		for len(b) < n {
			b = append(b, byte('a'+len(b)%26))
		}
		return b
	}
	fLong := string(long("zlongfield", 130+r.Intn(200)))
	names := []string{"a", fLong, "b"}
	nd := 2 + r.Intn(4)
	b := make(Batch, nd)
	nterms := []int{5, 140, 300}[i%3]
	for d := 0; d < nd; d++ {
		id := []byte(fmt.Sprintf("x%d", d))
		doc := Doc{{Name: "_id", Len: 1, Stored: true, Value: B(id), Terms: []TermOcc{{Term: B(id), Freq: 1, Locs: []Loc{}}}}}
		for _, f := range names {
			if r.Intn(4) == 0 {
				continue
			}
			fi := FieldInst{Name: f, Value: Bytes{}, Terms: []TermOcc{}, DV: f == "a"}
			switch f {
			case "a": // many distinct terms
				for k := 0; k < nterms; k++ {
					if r.Intn(3) == 0 {
						continue
					}
					fi.Terms = append(fi.Terms, TermOcc{Term: B([]byte(fmt.Sprintf("t%03d", k))), Freq: 1, Locs: []Loc{}})
				}
			case "b": // one posting with very many locations, huge positions, a two-byte frequency
				nl := 150 + r.Intn(150)
				occ := TermOcc{Term: B(long("term", 129+r.Intn(300))), Freq: nl + r.Intn(200), Locs: []Loc{}}
				for j := 0; j < nl; j++ {
					occ.Locs = append(occ.Locs, Loc{Field: []string{"", "a", fLong}[j%3], Pos: 2000000000 - j, Start: 1 << uint(j%31), End: 2147483000})
				}
				fi.Terms = append(fi.Terms, occ, TermOcc{Term: B([]byte{0xfe, 0xff}), Freq: 130, Locs: []Loc{}})
			default:
				fi.Terms = append(fi.Terms, TermOcc{Term: B([]byte("x")), Freq: 2, Locs: []Loc{{Field: "", Pos: 1, Start: 0, End: 1}}})
				fi.Stored = true
				big := make([]byte, []int{70000, 300, 140000}[d%3])
				for x := range big {
					big[x] = byte((x*7 + d) % 251)
				}
				fi.Value = B(big)
			}
			for _, t := range fi.Terms {
				fi.Len += t.Freq
			}
			doc = append(doc, fi)
		}
		b[d] = doc
	}
	// contract: a location names a field of the same batch (a field may have been left out of every document)
	present := map[string]bool{}
	for _, f := range b.FieldNames() {
		present[f] = true
	}
	for d := range b {
		for k := range b[d] {
			for t := range b[d][k].Terms {
				for j := range b[d][k].Terms[t].Locs {
					if !present[b[d][k].Terms[t].Locs[j].Field] {
						b[d][k].Terms[t].Locs[j].Field = ""
					}
				}
			}
		}
	}
	sc := Scenario{Name: fmt.Sprintf("extremes-%d", i), NormKind: "code", Universe: append([]string{"_id", "nosuchfield"}, names...), Batches: []Batch{b},
		Tags: []string{"extremes"}}
	sc.Ops = append(sc.Ops, Op{Op: "build", Seg: 1, Batch: 0, Mode: pickMode(r)}, Op{Op: "observe", Seg: 1, Level: "full"},
		Op{Op: "persist", Seg: 1, File: 1}, Op{Op: "load", File: 1, Seg: 2, Backing: "file"}, Op{Op: "observe", Seg: 2, Level: "light"},
		Op{Op: "merge", File: 2, In: []int{1, 2}, Drops: []DropSpec{{Kind: "set", Docs: []int{0}}, {Kind: "nil"}}, Mode: pickMode(r), Buf: 4096},
		Op{Op: "load", File: 2, Seg: 3, Backing: "mem"}, Op{Op: "observe", Seg: 3, Level: "full"})
	return sc
}

// huge: more than 65536 documents (a second roaring container, document numbers beyond 16 bits), almost all of
// them inert; postings, exclusions, deletions and stored fields around the 65535/65536 boundary (C01, C02, C05, C06)
func genHuge(r *rand.Rand, i int) Scenario {
	n := 65536 + []int{1, 3, 70, 1500}[i%4]
	b := make(Batch, n)
	hot := map[int]bool{0: true, 1: true, 65534: true, 65535: true, 65536: true, n - 1: true, 32768: true, 1024: true}
	for k := 0; k < 12; k++ {
		hot[r.Intn(n)] = true
	}
	for d := 0; d < n; d++ {
		if !hot[d] {
			b[d] = Doc{}
			continue
		}
		id := []byte(fmt.Sprintf("h%d", d))
		occ := TermOcc{Term: B([]byte("x")), Freq: 1 + d%2, Locs: []Loc{}}
		if d%2 == 0 {
			occ.Locs = append(occ.Locs, Loc{Field: "", Pos: 1, Start: d, End: d + 1})
		}
		b[d] = Doc{{Name: "_id", Len: 1, Stored: true, Value: B(id), Terms: []TermOcc{{Term: B(id), Freq: 1, Locs: []Loc{}}}},
			{Name: "a", Len: occ.Freq, DV: true, Value: Bytes{}, Terms: []TermOcc{occ}}}
	}
	sc := Scenario{Name: fmt.Sprintf("huge-%d", i), NormKind: "code", Universe: []string{"_id", "a"}, Batches: []Batch{b}, Tags: []string{"huge"}}
	sc.Ops = append(sc.Ops, Op{Op: "build", Seg: 1, Batch: 0, Mode: []uint32{0, 1024, 1025, 100}[i%4]})
	hots := keys(hot)
	drop := []int{0, 65535, hots[len(hots)/2]}
	sc.Ops = append(sc.Ops, Op{Op: "merge", File: 1, In: []int{1}, Drops: []DropSpec{{Kind: "set", Docs: drop}}, Mode: 0, Buf: 4096},
		Op{Op: "load", File: 1, Seg: 2, Backing: []string{"mem", "file"}[i%2]})
	for _, seg := range []int{1, 2} {
		sc.Ops = append(sc.Ops, Op{Op: "dict", Seg: seg, Field: "a"},
			Op{Op: "pl_open", Seg: seg, Field: "a", Term: B([]byte("x")), Except: &DropSpec{Kind: "set", Docs: []int{1, 65536}}, Pl: 10 + seg},
			Op{Op: "it_open", Pl: 10 + seg, It: 20 + seg, Freq: true, Norm: true, Locs: true})
		for k := 0; k < 6; k++ {
			sc.Ops = append(sc.Ops, Op{Op: "it_next", It: 20 + seg})
		}
		sc.Ops = append(sc.Ops, Op{Op: "it_adv", It: 20 + seg, D: 65530}, Op{Op: "it_next", It: 20 + seg}, Op{Op: "it_adv", It: 20 + seg, D: 65536},
			Op{Op: "it_next", It: 20 + seg}, Op{Op: "it_next", It: 20 + seg}, Op{Op: "it_next", It: 20 + seg},
			Op{Op: "match", Seg: seg, Pairs: []Pair{{"a", B([]byte("x"))}, {"_id", B([]byte("h65536"))}}},
			Op{Op: "stats", Seg: seg, Field: "a"},
			Op{Op: "dv_open", Seg: seg, R: seg, Fields: []string{"a"}})
		for _, d := range []int{0, 65535, 65536, 65534, n - 4, 1024, 65533} {
			sc.Ops = append(sc.Ops, Op{Op: "stored", Seg: seg, N: d}, Op{Op: "dv_visit", R: seg, N: d})
		}
	}
	return sc
}

// iter_share: several iterations alive at once over the lists of one dictionary, with Close() calls and
// iterator objects handed back as prealloc to OTHER lists in between; every iteration in progress must
// continue as if it were alone (C05, C13)
func genIterShare(r *rand.Rand, i int) Scenario {
	loc := []Loc{{Field: "", Pos: 1, Start: 0, End: 3}}
	nd := 5 + r.Intn(4)
	b := make(Batch, nd)
	for d := 0; d < nd; d++ {
		id := []byte(fmt.Sprintf("d%d", d))
		var ts []TermOcc
		if d != 2 {
			ts = append(ts, TermOcc{Term: B([]byte("x")), Freq: 1 + d%3, Locs: []Loc{}})
		}
		if d%2 == 0 {
			ts = append(ts, TermOcc{Term: B([]byte("y")), Freq: 2, Locs: loc})
		}
		if d == 3 {
			ts = append(ts, TermOcc{Term: B([]byte("z")), Freq: 1, Locs: []Loc{}})
		}
		l := 0
		for _, t := range ts {
			l += t.Freq
		}
		b[d] = Doc{{Name: "_id", Len: 1, Stored: true, Value: B(id), Terms: []TermOcc{{Term: B(id), Freq: 1, Locs: []Loc{}}}},
			{Name: "a", Len: l, Value: Bytes{}, Terms: ts}}
	}
	sc := Scenario{Name: fmt.Sprintf("iter_share-%d", i), NormKind: "code", Universe: []string{"_id", "a"}, Batches: []Batch{b}, Tags: []string{"iter_share"}}
	mode := []uint32{1, 2, 0, 3}[i%4]
	sc.Ops = append(sc.Ops, Op{Op: "build", Seg: 1, Batch: 0, Mode: mode},
		Op{Op: "merge", File: 1, In: []int{1}, Drops: []DropSpec{{Kind: "nil"}}, Mode: mode, Buf: 64},
		Op{Op: "load", File: 1, Seg: 2, Backing: []string{"mem", "file"}[(i/4)%2]})
	seg := 1 + (i/8)%2
	terms := [][]byte{[]byte("x"), []byte("y"), []byte("z"), []byte("x")}
	// list objects: 10.. ; iterator objects 20..
	npl := 2 + r.Intn(2)
	for k := 0; k < npl; k++ {
		o := Op{Op: "pl_open", Seg: seg, Field: "a", Term: B(terms[(i+k)%len(terms)]), Pl: 10 + k}
		if r.Intn(3) == 0 {
			o.Except = &DropSpec{Kind: "set", Docs: []int{r.Intn(nd)}}
		}
		sc.Ops = append(sc.Ops, o)
	}
	if i%3 == 1 {
		// a twin segment: same shapes and sizes up to one frequency that needs a longer varint, so the term's
		// sections start at the same offsets but their chunk tables differ; iterators travel between the twins
		tw := make(Batch, len(b))
		for d := range b {
			tw[d] = make(Doc, len(b[d]))
			copy(tw[d], b[d])
			if d == nd-1 {
				fi := tw[d][1]
				ts := append([]TermOcc{}, fi.Terms...)
				for k := range ts {
					if string(ts[k].Term.Raw()) == "x" {
						fi.Len += 300 - ts[k].Freq
						ts[k].Freq = 300
					}
				}
				fi.Terms = ts
				tw[d][1] = fi
			}
		}
		sc.Batches = append(sc.Batches, tw)
		sc.Ops = append(sc.Ops, Op{Op: "build", Seg: 8, Batch: 1, Mode: mode})
		sa, sb := 1, 8
		if (i/3)%2 == 1 {
			sa, sb = 8, 1
		}
		sc.Ops = append(sc.Ops,
			Op{Op: "pl_open", Seg: sa, Field: "a", Term: B([]byte("x")), Pl: 44}, Op{Op: "it_open", Pl: 44, It: 54, Freq: true, Norm: true, Locs: i%2 == 0},
			Op{Op: "it_next", It: 54}, Op{Op: "it_next", It: 54},
			Op{Op: "pl_open", Seg: sb, Field: "a", Term: B([]byte("x")), Pl: 45, Prealloc: []int{0, 44}[(i/6)%2]},
			Op{Op: "it_open_last", It: 54, Prealloc: 54, Freq: true, Norm: true, Locs: i%2 == 0})
		for s := 0; s < nd+1; s++ {
			sc.Ops = append(sc.Ops, Op{Op: "it_next_last"})
		}
	}
	if i%4 == 3 {
		// a reader that recycles its iterator from term to term meets an absent term first (it is handed the shared
		// empty iterator) and passes that on as prealloc; other readers of absent terms must still see nothing
		sc.Ops = append(sc.Ops,
			Op{Op: "pl_open", Seg: seg, Field: "a", Term: B([]byte("nope")), Pl: 60}, Op{Op: "it_open", Pl: 60, It: 70, Freq: true, Norm: true, Locs: true}, Op{Op: "it_next", It: 70},
			Op{Op: "pl_open", Seg: seg, Field: "a", Term: B([]byte("y")), Pl: 61}, Op{Op: "it_open", Pl: 61, It: 70, Prealloc: 70, Freq: true, Norm: true, Locs: true}, Op{Op: "it_next_last"},
			Op{Op: "pl_open", Seg: seg, Field: []string{"a", "nosuchfield"}[(i/4)%2], Term: B([]byte("zzz")), Pl: 62}, Op{Op: "it_open", Pl: 62, It: 71, Freq: true, Norm: true, Locs: true},
			Op{Op: "it_next", It: 71}, Op{Op: "it_next", It: 71}, Op{Op: "it_next", It: 70}, Op{Op: "it_next", It: 70}, Op{Op: "it_count", It: 71})
	}
	if i%3 == 0 {
		// an iterator that read locations on one segment is recycled on a segment whose field with the SAME id has
		// another name: the locations must carry the second segment's names
		mk2 := func(f string, base int) Batch {
			b := make(Batch, 3)
			for d := range b {
				id := []byte(fmt.Sprintf("n%d", base+d))
				b[d] = Doc{{Name: "_id", Len: 1, Stored: true, Value: B(id), Terms: []TermOcc{{Term: B(id), Freq: 1, Locs: []Loc{}}}},
					{Name: f, Len: 2, Value: Bytes{}, Terms: []TermOcc{{Term: B([]byte("x")), Freq: 2, Locs: []Loc{{Field: "", Pos: 1 + d, Start: d, End: d + 1}, {Field: "", Pos: 5 + d, Start: 9, End: 12 + d}}}}}}
			}
			return b
		}
		sc.Batches = append(sc.Batches, mk2("alpha", 0), mk2("beta", 10))
		sc.Universe = append(sc.Universe, "alpha", "beta")
		nb := len(sc.Batches)
		sc.Ops = append(sc.Ops, Op{Op: "build", Seg: 17, Batch: nb - 2, Mode: 0}, Op{Op: "build", Seg: 18, Batch: nb - 1, Mode: 0},
			Op{Op: "pl_open", Seg: 17, Field: "alpha", Term: B([]byte("x")), Pl: 85}, Op{Op: "it_open", Pl: 85, It: 95, Freq: true, Norm: true, Locs: true},
			Op{Op: "it_next", It: 95}, Op{Op: "it_next", It: 95},
			Op{Op: "pl_open", Seg: 18, Field: "beta", Term: B([]byte("x")), Pl: 86}, Op{Op: "it_open", Pl: 86, It: 95, Prealloc: 95, Freq: true, Norm: true, Locs: true},
			Op{Op: "it_next", It: 95}, Op{Op: "it_next", It: 95}, Op{Op: "it_next", It: 95}, Op{Op: "it_next", It: 95})
	}
	if i%4 == 1 {
		// ONE list and ONE iterator recycled through present, absent, absent, present terms: the iterator the second
		// absent term gets as prealloc is the shared empty one the first absent term returned; readers of other absent
		// terms (fresh objects, also on the other segment) must still see nothing
		sc.Ops = append(sc.Ops,
			Op{Op: "pl_open", Seg: seg, Field: "a", Term: B([]byte("y")), Pl: 80}, Op{Op: "pl_count", Pl: 80},
			Op{Op: "pl_open", Seg: seg, Field: "a", Term: B([]byte("nope")), Pl: 80, Prealloc: 80},
			Op{Op: "it_open", Pl: 80, It: 90, Freq: true, Norm: true, Locs: true}, Op{Op: "it_next", It: 90},
			Op{Op: "pl_open", Seg: seg, Field: "a", Term: B([]byte("nope2")), Pl: 80, Prealloc: 80},
			Op{Op: "it_open", Pl: 80, It: 90, Prealloc: 90, Freq: true, Norm: true, Locs: true}, Op{Op: "it_next", It: 90},
			Op{Op: "pl_open", Seg: seg, Field: "a", Term: B([]byte("x")), Pl: 80, Prealloc: 80}, Op{Op: "pl_count", Pl: 80},
			Op{Op: "pl_open", Seg: seg, Field: "a", Term: B([]byte("zzz")), Pl: 81}, Op{Op: "it_open", Pl: 81, It: 91, Freq: true, Norm: true, Locs: true},
			Op{Op: "it_count", It: 91}, Op{Op: "it_next", It: 91},
			Op{Op: "pl_open", Seg: 1, Field: "nosuchfield", Term: B([]byte("q")), Pl: 82}, Op{Op: "it_open", Pl: 82, It: 92}, Op{Op: "it_count", It: 92}, Op{Op: "it_next", It: 92},
			Op{Op: "it_open", Pl: 80, It: 93, Freq: true, Norm: true, Locs: true}, Op{Op: "it_next", It: 93}, Op{Op: "digest"})
	}
	if i%4 == 2 && seg == 1 {
		// one caller-owned bitmap installed with ReplaceActual in two iterators; one of them is drained and recycled
		// for a list with exclusions - the bitmap stays the caller's, the other iterator goes on over it
		sc.Ops = append(sc.Ops, Op{Op: "def_bm", Bm: 1, Docs: []int{0, 4}},
			Op{Op: "pl_open", Seg: 1, Field: "a", Term: B([]byte("x")), Pl: 46}, Op{Op: "pl_open", Seg: 1, Field: "a", Term: B([]byte("y")), Pl: 47},
			Op{Op: "it_open", Pl: 46, It: 56, Freq: true, Norm: true, Locs: true}, Op{Op: "it_replace", It: 56, Bm: 1},
			Op{Op: "it_open", Pl: 47, It: 57, Freq: true, Norm: true, Locs: true}, Op{Op: "it_replace", It: 57, Bm: 1},
			Op{Op: "it_next", It: 56}, Op{Op: "it_next", It: 56}, Op{Op: "it_next", It: 56}, Op{Op: "it_next", It: 57},
			Op{Op: "pl_open", Seg: 1, Field: "a", Term: B([]byte("x")), Except: &DropSpec{Kind: "set", Docs: []int{1, 3}}, Pl: 48},
			Op{Op: "it_open", Pl: 48, It: 56, Prealloc: 56, Freq: true, Norm: true, Locs: false},
			Op{Op: "it_next", It: 56}, Op{Op: "it_next", It: 57}, Op{Op: "it_next", It: 57},
			Op{Op: "it_open", Pl: 46, It: 58, Freq: true, Norm: false, Locs: false}, Op{Op: "it_replace", It: 58, Bm: 1},
			Op{Op: "it_next", It: 58}, Op{Op: "it_next", It: 58}, Op{Op: "it_next", It: 58}, Op{Op: "digest"})
	}
	if i%3 == 0 {
		// two readers, each: walk a term that has no location data at all with locations requested, hand the
		// iterator back for a term that has locations, then both advance in turns
		sc.Ops = append(sc.Ops,
			Op{Op: "pl_open", Seg: seg, Field: "a", Term: B([]byte("x")), Pl: 40}, Op{Op: "pl_open", Seg: seg, Field: "a", Term: B([]byte("y")), Pl: 41},
			Op{Op: "pl_open", Seg: seg, Field: "a", Term: B([]byte("y")), Pl: 42}, Op{Op: "pl_open", Seg: seg, Field: "a", Term: B([]byte("z")), Pl: 43},
			Op{Op: "it_open", Pl: 40, It: 50, Freq: true, Norm: true, Locs: true}, Op{Op: "it_next", It: 50},
			Op{Op: "it_open", Pl: []int{40, 43}[(i/3)%2], It: 51, Freq: true, Norm: true, Locs: true}, Op{Op: "it_next", It: 51},
			Op{Op: "it_open", Pl: 41, It: 50, Prealloc: 50, Freq: true, Norm: true, Locs: true},
			Op{Op: "it_open", Pl: 42, It: 51, Prealloc: 51, Freq: true, Norm: true, Locs: true})
		for s := 0; s < nd; s++ {
			sc.Ops = append(sc.Ops, Op{Op: "it_next", It: 50}, Op{Op: "it_next", It: 51})
		}
	}
	type itS struct {
		h      int
		closed bool
	}
	var its []*itS
	next := 20
	openOn := func(pl int, pre int) *itS {
		fl := r.Intn(8)
		h := next
		next++
		if pre != 0 {
			h = pre
		}
		sc.Ops = append(sc.Ops, Op{Op: "it_open", Pl: pl, It: h, Prealloc: pre, Freq: fl&1 != 0, Norm: fl&2 != 0, Locs: fl&4 != 0})
		return &itS{h: h}
	}
	for round := 0; round < 5+r.Intn(4); round++ {
		// open an iteration: fresh, or on a closed/abandoned iterator object
		pre := 0
		if len(its) > 0 && r.Intn(2) == 0 {
			k := r.Intn(len(its))
			pre = its[k].h
			its = append(its[:k], its[k+1:]...) // that iteration is over: its object now serves the new one
		}
		its = append(its, openOn(10+r.Intn(npl), pre))
		// step every live iteration a little, in random order
		for s := 0; s < 2+r.Intn(5); s++ {
			live := []*itS{}
			for _, x := range its {
				if !x.closed {
					live = append(live, x)
				}
			}
			if len(live) == 0 {
				break
			}
			x := live[r.Intn(len(live))]
			if r.Intn(4) == 0 {
				sc.Ops = append(sc.Ops, Op{Op: "it_adv", It: x.h, D: r.Intn(nd + 1)})
			} else {
				sc.Ops = append(sc.Ops, Op{Op: "it_next", It: x.h})
			}
		}
		if r.Intn(2) == 0 {
			x := its[r.Intn(len(its))]
			if !x.closed {
				sc.Ops = append(sc.Ops, Op{Op: "it_close", It: x.h})
				x.closed = true
			}
		}
	}
	// run every iteration still open to its end
	for _, x := range its {
		if !x.closed {
			for s := 0; s < nd+1; s++ {
				sc.Ops = append(sc.Ops, Op{Op: "it_next", It: x.h})
			}
		}
	}
	return sc
}

// merge_chain: merges of merges in which some inputs have lost every document (zero-document segments that
// still list fields, without dictionaries), fields known to only one input, and the empty segment merged again
// alone and with others (C02, C04, C16, C17)
func genMergeChain(r *rand.Rand, i int) Scenario {
	pool := []string{"a", "b", "c", "m", "zz", "_all"}
	sc := Scenario{Name: fmt.Sprintf("merge_chain-%d", i), NormKind: "code", Tags: []string{"merge_chain"}}
	seq := 0
	uni := map[string]bool{"_id": true, "nosuchfield": true}
	lens := []int{}
	for k := 0; k < 3; k++ {
		cfg := defaultCfg(r)
		r.Shuffle(len(pool), func(a, b int) { pool[a], pool[b] = pool[b], pool[a] })
		cfg.Fields = append([]string{}, pool[:1+r.Intn(3)]...)
		only := fmt.Sprintf("only%d", k) // a field no other input knows; sorts after and between the others
		if k == 1 {
			only = "an1"
		}
		cfg.Fields = append(cfg.Fields, only)
		cfg.StatsMode = true
		cfg.MinDocs, cfg.MaxDocs = 1, 4
		cfg.PEmptyDoc = 0.05
		b := genBatch(r, &cfg, &seq)
		sc.Batches = append(sc.Batches, b)
		lens = append(lens, len(b))
		for _, f := range cfg.Fields {
			uni[f] = true
		}
		sc.Ops = append(sc.Ops, Op{Op: "build", Seg: k + 1, Batch: k, Mode: pickMode(r)})
	}
	for f := range uni {
		sc.Universe = append(sc.Universe, f)
	}
	sort.Strings(sc.Universe)
	allOf := func(n int) DropSpec {
		d := make([]int, n)
		for x := range d {
			d[x] = x
		}
		return DropSpec{Kind: "set", Docs: d}
	}
	none := func() DropSpec { return []DropSpec{{Kind: "nil"}, {Kind: "set", Docs: []int{}}}[r.Intn(2)] }
	mg := func(file int, in []int, drops []DropSpec) {
		sc.Ops = append(sc.Ops, Op{Op: "merge", File: file, In: in, Drops: drops, Mode: pickMode(r), Buf: 64},
			Op{Op: "load", File: file, Seg: file, Backing: []string{"mem", "file"}[r.Intn(2)]})
	}
	e := 1 + i%3 // the input that loses everything
	o1, o2 := 1+(e%3), 1+((e+1)%3)
	mg(10, []int{e}, []DropSpec{allOf(lens[e-1])})                            // zero documents, fields of e
	mg(11, []int{10, o1}, []DropSpec{none(), randDropsNotAll(r, lens[o1-1])}) // empty first
	mg(12, []int{o2, 10}, []DropSpec{randDrops(r, lens[o2-1]), none()})       // empty last
	mg(13, []int{10}, []DropSpec{none()})                                     // empty alone
	mg(14, []int{11, 13, 12}, []DropSpec{{Kind: "nil"}, none(), {Kind: "nil"}})
	mg(15, []int{o1, 10, 13, o2}, []DropSpec{none(), none(), none(), none()})
	for _, h := range []int{10, 11, 12, 13, 14, 15} {
		sc.Ops = append(sc.Ops, Op{Op: "observe", Seg: h, Level: "full"})
	}
	return sc
}

// mass_delete: segments of several thousand (mostly inert) documents merged with thousands of deletions - long
// runs, runs ending exactly at multiples of 4096 deleted documents, every other document, all but a few (C02, C03)
func genMassDelete(r *rand.Rand, i int) Scenario {
	n := 4200 + r.Intn(5000)
	mk := func(n, base int) (Batch, []int) {
		b := make(Batch, n)
		hot := []int{}
		for d := 0; d < n; d++ {
			if d%211 == 0 || d == n-1 || r.Intn(400) == 0 {
				id := []byte(fmt.Sprintf("k%d", base+d))
				b[d] = Doc{{Name: "_id", Len: 1, Stored: true, Value: B(id), Terms: []TermOcc{{Term: B(id), Freq: 1, Locs: []Loc{}}}},
					{Name: "a", Len: 1, DV: true, Value: Bytes{}, Terms: []TermOcc{{Term: B([]byte("x")), Freq: 1, Locs: []Loc{}}}}}
				hot = append(hot, d)
			} else {
				b[d] = Doc{}
			}
		}
		return b, hot
	}
	b1, hot1 := mk(n, 0)
	b2, _ := mk(300+r.Intn(300), 100000)
	del := map[int]bool{}
	run := func(from, cnt int) {
		for d := from; d < from+cnt && d < n; d++ {
			del[d] = true
		}
	}
	switch i % 5 {
	case 0: // one long run
		run(r.Intn(50), 4097+r.Intn(n-4200))
	case 1: // exactly k*4096 deletions in a run, then a survivor, then more
		s := r.Intn(40)
		run(s, 4096)
		run(s+4097, 1+r.Intn(60))
	case 2: // every other document, then a run
		for d := 0; d < n; d += 2 {
			del[d] = true
		}
		run(n/2, 300)
	case 3: // all but a few
		run(0, n)
		for k := 0; k < 5; k++ {
			delete(del, r.Intn(n))
		}
		delete(del, hot1[len(hot1)/2])
	case 4: // runs whose deleted count passes 4096 in the middle of a run
		run(10, 4000)
		run(4020, 200)
		run(4300, r.Intn(400))
	}
	sc := Scenario{Name: fmt.Sprintf("mass_delete-%d", i), NormKind: "code", Universe: []string{"_id", "a"}, Batches: []Batch{b1, b2}, Tags: []string{"mass_delete"}}
	sc.Ops = append(sc.Ops, Op{Op: "build", Seg: 1, Batch: 0, Mode: 0}, Op{Op: "build", Seg: 2, Batch: 1, Mode: 0})
	in, drops := []int{1, 2}, []DropSpec{{Kind: "set", Docs: keys(del)}, randDrops(r, len(b2))}
	if i%2 == 1 {
		in, drops = []int{2, 1}, []DropSpec{drops[1], drops[0]}
	}
	sc.Ops = append(sc.Ops, Op{Op: "merge", File: 1, In: in, Drops: drops, Mode: 0, Buf: 4096},
		Op{Op: "load", File: 1, Seg: 3, Backing: []string{"mem", "file"}[r.Intn(2)]},
		Op{Op: "dict", Seg: 3, Field: "a"}, Op{Op: "dict", Seg: 3, Field: "_id"}, Op{Op: "stats", Seg: 3, Field: "a"},
		Op{Op: "pl_open", Seg: 3, Field: "a", Term: B([]byte("x")), Pl: 10}, Op{Op: "it_open", Pl: 10, It: 20, Freq: true, Norm: true, Locs: true})
	for k := 0; k < len(hot1)+6; k++ {
		sc.Ops = append(sc.Ops, Op{Op: "it_next", It: 20})
	}
	sc.Ops = append(sc.Ops, Op{Op: "dv_open", Seg: 3, R: 1, Fields: []string{"a"}})
	surv := n - len(del)
	for _, d := range []int{0, 1, surv - 1, surv, surv + 1, surv / 2, 127, 128} {
		if d >= 0 {
			sc.Ops = append(sc.Ops, Op{Op: "stored", Seg: 3, N: d})
			if d < surv {
				sc.Ops = append(sc.Ops, Op{Op: "dv_visit", R: 1, N: d})
			}
		}
	}
	return sc
}

// card_boundary: postings lists whose cardinality sits on and around the multiples of 1024 at which the default
// chunk mode changes the chunk size, merged with already merged inputs that carry the same term as a 1-hit value
// - kept and deleted; all-at-once against pairwise (C02, C05, C17)
func genCardBoundary(r *rand.Rand, i int) Scenario {
	ns := []int{1023, 1024, 1022, 1025, 2047, 2048}
	n := ns[i%len(ns)]
	hot := []byte("t")
	if i%2 == 1 {
		hot = []byte{} // the empty term: the first key of the field's dictionary
	}
	b1 := make(Batch, n)
	for d := 0; d < n; d++ {
		occ := TermOcc{Term: B(hot), Freq: 1 + d%2, Locs: []Loc{}}
		if d%97 == 3 {
			occ.Locs = append(occ.Locs, Loc{Field: "", Pos: d, Start: 0, End: 1})
		}
		b1[d] = Doc{{Name: "a", Len: occ.Freq, Value: Bytes{}, Terms: []TermOcc{occ}}}
	}
	one := func(k int) Batch {
		id := []byte(fmt.Sprintf("s%d", k))
		return Batch{Doc{{Name: "_id", Len: 1, Stored: true, Value: B(id), Terms: []TermOcc{{Term: B(id), Freq: 1, Locs: []Loc{}}}},
			{Name: "a", Len: 1, Value: Bytes{}, Terms: []TermOcc{{Term: B(hot), Freq: 1, Locs: []Loc{}}}}}}
	}
	sc := Scenario{Name: fmt.Sprintf("card_boundary-%d", i), NormKind: "code", Universe: []string{"_id", "a"}, Batches: []Batch{b1, one(1), one(2)},
		Tags: []string{"card_boundary"}}
	nilD := DropSpec{Kind: "nil"}
	all1 := DropSpec{Kind: "set", Docs: []int{0}}
	sc.Ops = append(sc.Ops, Op{Op: "build", Seg: 1, Batch: 0, Mode: 0}, Op{Op: "build", Seg: 2, Batch: 1, Mode: 0}, Op{Op: "build", Seg: 3, Batch: 2, Mode: 0},
		// already merged single-document inputs: the term is a 1-hit value there
		Op{Op: "merge", File: 12, In: []int{2}, Drops: []DropSpec{nilD}, Mode: 0, Buf: 64}, Op{Op: "load", File: 12, Seg: 12, Backing: "mem"},
		Op{Op: "merge", File: 13, In: []int{3}, Drops: []DropSpec{nilD}, Mode: 0, Buf: 64}, Op{Op: "load", File: 13, Seg: 13, Backing: "mem"})
	d12, d13 := []DropSpec{all1, nilD}[(i/6)%2], []DropSpec{nilD, all1}[(i/12)%2]
	var d1 DropSpec = nilD
	if (i/3)%2 == 1 {
		d1 = DropSpec{Kind: "set", Docs: []int{r.Intn(n)}}
	}
	// all at once
	sc.Ops = append(sc.Ops, Op{Op: "merge", File: 20, In: []int{1, 12, 13}, Drops: []DropSpec{d1, d12, d13}, Mode: 0, Buf: 4096},
		Op{Op: "load", File: 20, Seg: 20, Backing: "mem"},
		// pairwise: the small ones first (their deletions applied there), then with the big one
		Op{Op: "merge", File: 21, In: []int{12, 13}, Drops: []DropSpec{d12, d13}, Mode: 0, Buf: 64}, Op{Op: "load", File: 21, Seg: 21, Backing: "mem"},
		Op{Op: "merge", File: 22, In: []int{1, 21}, Drops: []DropSpec{d1, nilD}, Mode: 0, Buf: 4096}, Op{Op: "load", File: 22, Seg: 22, Backing: "mem"},
		Op{Op: "observe", Seg: 20, Level: "full"}, Op{Op: "observe", Seg: 22, Level: "full"}, Op{Op: "same_obs", In: []int{20, 22}})
	return sc
}

// field_limit: as many distinct fields as the 16-bit field id allows (65535 including _id) and a few below;
// built, persisted, loaded memory-backed (C01, C04)
func genFieldLimit(r *rand.Rand, i int) Scenario {
	nf := []int{65535, 65534, 65535, 40000}[i%4] // number of fields including _id
	doc := Doc{{Name: "_id", Len: 1, Stored: true, Value: B([]byte("w")), Terms: []TermOcc{{Term: B([]byte("w")), Freq: 1, Locs: []Loc{}}}}}
	names := make([]string, 0, nf)
	for k := 0; k < nf-1; k++ {
		names = append(names, fmt.Sprintf("g%05d", k))
	}
	for k, f := range names {
		fi := FieldInst{Name: f, Len: 0, Value: Bytes{}, Terms: []TermOcc{}}
		if k%5000 == 0 || k >= nf-4 {
			fi.Len, fi.Terms = 1, []TermOcc{{Term: B([]byte("x")), Freq: 1, Locs: []Loc{}}}
		}
		doc = append(doc, fi)
	}
	b := Batch{doc, Doc{{Name: "_id", Len: 1, Stored: true, Value: B([]byte("v")), Terms: []TermOcc{{Term: B([]byte("v")), Freq: 1, Locs: []Loc{}}}}}}
	sc := Scenario{Name: fmt.Sprintf("field_limit-%d", i), NormKind: "code", Universe: []string{"_id", names[0], names[len(names)-1], names[len(names)-2]},
		Batches: []Batch{b}, Tags: []string{"field_limit"}}
	sc.Ops = append(sc.Ops, Op{Op: "build", Seg: 1, Batch: 0, Mode: 0}, Op{Op: "persist", Seg: 1, File: 1}, Op{Op: "load", File: 1, Seg: 2, Backing: "mem"})
	for _, seg := range []int{1, 2} {
		sc.Ops = append(sc.Ops, Op{Op: "fields", Seg: seg})
		for _, f := range []string{names[len(names)-1], names[0], names[len(names)-2]} {
			sc.Ops = append(sc.Ops, Op{Op: "dict", Seg: seg, Field: f}, Op{Op: "stats", Seg: seg, Field: f},
				Op{Op: "pl_open", Seg: seg, Field: f, Term: B([]byte("x")), Pl: 10}, Op{Op: "it_open_last", It: 20, Freq: true, Norm: true, Locs: true},
				Op{Op: "it_next_last"}, Op{Op: "it_next_last"})
		}
		sc.Ops = append(sc.Ops, Op{Op: "stored", Seg: seg, N: 0}, Op{Op: "stored", Seg: seg, N: 1})
	}
	return sc
}

// wide_repeat: the very same batch built many times: a wide schema (33-150 fields) with documents that store
// values in only a few of the fields, in every chunk mode - anything that depends on map iteration order, on the
// previous build or on the goroutine shows as differing bytes (C14)
func genWideRepeat(r *rand.Rand, i int) Scenario {
	nf := 33 + r.Intn(120)
	names := make([]string, nf)
	for k := range names {
		names[k] = fmt.Sprintf("w%03d", k)
	}
	nd := 6 + r.Intn(20)
	b := make(Batch, nd)
	for d := 0; d < nd; d++ {
		id := []byte(fmt.Sprintf("r%d", d))
		doc := Doc{{Name: "_id", Len: 1, Stored: true, Value: B(id), Terms: []TermOcc{{Term: B(id), Freq: 1, Locs: []Loc{}}}}}
		for q := 0; q < 1+r.Intn(4); q++ {
			f := names[r.Intn(nf)]
			doc = append(doc, FieldInst{Name: f, Len: 1, Stored: true, DV: false, Value: B([]byte(fmt.Sprintf("val-%d-%d", d, q))),
				Terms: []TermOcc{{Term: B(termVocab[r.Intn(4)]), Freq: 1, Locs: []Loc{}}}})
		}
		b[d] = doc
	}
	// every field exists in the batch (first document carries them all, unstored)
	for _, f := range names {
		b[0] = append(b[0], FieldInst{Name: f, Len: 0, Value: Bytes{}, Terms: []TermOcc{}})
	}
	sc := Scenario{Name: fmt.Sprintf("wide_repeat-%d", i), NormKind: "code", Universe: []string{"_id", names[0], names[nf-1]}, Batches: []Batch{b},
		Tags: []string{"wide_repeat"}}
	mode := pickMode(r)
	for k := 0; k < 8; k++ {
		sc.Ops = append(sc.Ops, Op{Op: "build", Seg: 1 + k, Batch: 0, Mode: mode})
	}
	sc.Ops = append(sc.Ops, Op{Op: "observe", Seg: 8, Level: "light"})
	for d := 0; d < nd; d++ {
		sc.Ops = append(sc.Ops, Op{Op: "stored", Seg: 8, N: d})
	}
	return sc
}

// pool_vocab: vocabularies of very different sizes on one recycled builder - a batch with more than 10 000
// distinct irregular terms, a medium one (thousands) and a small one, in every order, each compared with the
// bytes of the same batch on a cold pool (C14)
func genPoolVocab(r *rand.Rand, i int) Scenario {
	mk := func(nterms, salt int) Batch {
		doc := Doc{{Name: "_id", Len: 1, Stored: true, Value: B([]byte("v")), Terms: []TermOcc{{Term: B([]byte("v")), Freq: 1, Locs: []Loc{}}}}}
		fi := FieldInst{Name: "a", Value: Bytes{}, Terms: make([]TermOcc, 0, nterms)}
		seen := map[string]bool{}
		for len(fi.Terms) < nterms {
			// irregular terms: random length 3..12 over a 20-letter alphabet
			n := 3 + r.Intn(10)
			t := make([]byte, n)
			for k := range t {
				t[k] = byte('a' + r.Intn(20))
			}
			if seen[string(t)] {
				continue
			}
			seen[string(t)] = true
			fi.Terms = append(fi.Terms, TermOcc{Term: B(t), Freq: 1, Locs: []Loc{}})
		}
		fi.Len = nterms
		_ = salt
		return Batch{append(doc, fi)}
	}
	huge, medium, small := mk(10500+r.Intn(3000), 1), mk(2500+r.Intn(2500), 2), mk(5+r.Intn(30), 3)
	if i%4 == 1 {
		// two vocabularies beyond 32 768 postings lists on one recycled builder (with a small build in between); in
		// the second one the lists past 32 768 belong to a second document only
		huge = mk(33000+r.Intn(800), 1)
		first := mk(32800+r.Intn(100), 2)
		second := mk(400+r.Intn(400), 4)
		second[0][0] = FieldInst{Name: "_id", Len: 1, Stored: true, Value: B([]byte("w")), Terms: []TermOcc{{Term: B([]byte("w")), Freq: 1, Locs: []Loc{}}}}
		for k := range second[0][1].Terms {
			second[0][1].Terms[k].Term = append(Bytes{'z', 'z'}, second[0][1].Terms[k].Term...) // no term of the first document
		}
		medium = Batch{first[0], second[0]}
	}
	sc := Scenario{Name: fmt.Sprintf("pool_vocab-%d", i), NormKind: "code", Universe: []string{"_id", "a"}, Batches: []Batch{huge, medium, small},
		Tags: []string{"pool_vocab"}}
	mode := []uint32{0, 1024, 2}[i%3]
	// reference bytes on a cold pool
	for j := 0; j < 3; j++ {
		sc.Ops = append(sc.Ops, Op{Op: "build", Seg: 1 + j, Batch: j, Mode: mode, Cold: true})
	}
	orders := [][]int{{2, 0, 1, 2}, {0, 1, 2, 0}, {1, 0, 2, 1}, {2, 1, 0}}
	h := 10
	for _, j := range orders[i%len(orders)] {
		h++
		sc.Ops = append(sc.Ops, Op{Op: "build", Seg: h, Batch: j, Mode: mode})
	}
	// the first build of the warm history ran on whatever the pool held; a cold start of the same order too
	h++
	sc.Ops = append(sc.Ops, Op{Op: "build", Seg: h, Batch: orders[(i+1)%len(orders)][0], Mode: mode, Cold: true})
	for _, j := range orders[(i+1)%len(orders)][1:] {
		h++
		sc.Ops = append(sc.Ops, Op{Op: "build", Seg: h, Batch: j, Mode: mode})
	}
	sc.Ops = append(sc.Ops, Op{Op: "contains", Seg: h, Field: "a", Term: B([]byte("abc"))})
	return sc
}

// dv_merge_order: a small input (one doc-value chunk) merged before and after a large one (several chunks) that
// shares the doc-value field; the INPUTS are read again afterwards and their digests compared (C07, C15)
func genDvMergeOrder(r *rand.Rand, i int) Scenario {
	mk := func(n, base int) Batch {
		b := make(Batch, n)
		for d := 0; d < n; d++ {
			if n > 20 && d%211 != 0 && d != n-1 && d != 1024 {
				b[d] = Doc{}
				continue
			}
			id := []byte(fmt.Sprintf("o%d", base+d))
			b[d] = Doc{{Name: "_id", Len: 1, Stored: true, Value: B(id), Terms: []TermOcc{{Term: B(id), Freq: 1, Locs: []Loc{}}}},
				{Name: "f", Len: 1, DV: true, Value: Bytes{}, Terms: []TermOcc{{Term: B([]byte(fmt.Sprintf("t%d", d%7))), Freq: 1, Locs: []Loc{}}}},
				{Name: "g", Len: 1, DV: true, Value: Bytes{}, Terms: []TermOcc{{Term: B([]byte("shared")), Freq: 1, Locs: []Loc{}}}}}
		}
		return b
	}
	small, large, small2 := mk(3+r.Intn(4), 0), mk(1026+r.Intn(1100), 1000), mk(2+r.Intn(3), 9000)
	sc := Scenario{Name: fmt.Sprintf("dv_merge_order-%d", i), NormKind: "code", Universe: []string{"_id", "f", "g"}, Batches: []Batch{small, large, small2},
		Tags: []string{"dv_merge_order"}}
	sc.Ops = append(sc.Ops, Op{Op: "build", Seg: 1, Batch: 0, Mode: 0}, Op{Op: "build", Seg: 2, Batch: 1, Mode: 0}, Op{Op: "build", Seg: 3, Batch: 2, Mode: 0})
	if i%2 == 1 {
		sc.Ops = append(sc.Ops, Op{Op: "persist", Seg: 1, File: 9}, Op{Op: "load", File: 9, Seg: 1, Backing: []string{"mem", "file"}[r.Intn(2)]})
	}
	sc.Ops = append(sc.Ops, Op{Op: "digest"})
	order := [][]int{{1, 2}, {1, 2, 3}, {2, 1}, {3, 1, 2}}[i%4]
	dr := make([]DropSpec, len(order))
	for k := range dr {
		dr[k] = DropSpec{Kind: "nil"}
	}
	if r.Intn(2) == 0 {
		dr[0] = DropSpec{Kind: "set", Docs: []int{0}}
	}
	sc.Ops = append(sc.Ops, Op{Op: "merge", File: 1, In: order, Drops: dr, Mode: 0, Buf: 4096}, Op{Op: "digest"})
	// the inputs once more: doc values of every document of the small ones, samples of the large one
	for _, seg := range []int{1, 3} {
		n := len(small)
		if seg == 3 {
			n = len(small2)
		}
		sc.Ops = append(sc.Ops, Op{Op: "dv_open", Seg: seg, R: seg, Fields: []string{"f", "g"}})
		for d := 0; d < n; d++ {
			sc.Ops = append(sc.Ops, Op{Op: "dv_visit", R: seg, N: d})
		}
	}
	sc.Ops = append(sc.Ops, Op{Op: "dv_open", Seg: 2, R: 2, Fields: []string{"g", "f"}})
	for _, d := range []int{0, 211, 1024, len(large) - 1, 1055} {
		sc.Ops = append(sc.Ops, Op{Op: "dv_visit", R: 2, N: d})
	}
	// two readers of the large input used in turns on different chunks (each keeps its own loaded chunk)
	sc.Ops = append(sc.Ops, Op{Op: "dv_open", Seg: 2, R: 31, Fields: []string{"f", "g"}}, Op{Op: "dv_open", Seg: 2, R: 32, Fields: []string{"f", "g"}})
	for _, v := range [][2]int{{31, 0}, {31, 211}, {32, 1024}, {31, 422}, {32, 1055}, {31, 0}, {32, len(large) - 1}, {31, 211}, {32, 1024}, {31, 633}} {
		sc.Ops = append(sc.Ops, Op{Op: "dv_visit", R: v[0], N: v[1]})
	}
	// and a second merge of the same inputs
	sc.Ops = append(sc.Ops, Op{Op: "merge", File: 2, In: order, Drops: dr, Mode: 0, Buf: 4096}, Op{Op: "load", File: 2, Seg: 20, Backing: "mem"},
		Op{Op: "dv_open", Seg: 20, R: 20, Fields: []string{"f", "g"}}, Op{Op: "dv_visit", R: 20, N: 0}, Op{Op: "dv_visit", R: 20, N: 1}, Op{Op: "dv_visit", R: 20, N: 2},
		Op{Op: "digest"})
	return sc
}

// giant_posting: one posting with more than 65 535 locations (a 16-bit count would wrap) followed by small
// postings of the same term; built, iterated with locations, skipped by Advance (C01, C05)
func genGiantPosting(r *rand.Rand, i int) Scenario {
	nl := 65536 + []int{0, 1, 7}[i%3]
	mkdoc := func(d, n int) Doc {
		id := []byte(fmt.Sprintf("z%d", d))
		occ := TermOcc{Term: B([]byte("x")), Freq: n, Locs: make([]Loc, n)}
		for j := range occ.Locs {
			occ.Locs[j] = Loc{Field: "", Pos: j + 1, Start: j % 1000, End: j%1000 + 1}
		}
		return Doc{{Name: "_id", Len: 1, Stored: true, Value: B(id), Terms: []TermOcc{{Term: B(id), Freq: 1, Locs: []Loc{}}}},
			{Name: "a", Len: n, Value: Bytes{}, Terms: []TermOcc{occ}}}
	}
	b := Batch{mkdoc(0, 2), mkdoc(1, nl), mkdoc(2, 3), mkdoc(3, 1)}
	sc := Scenario{Name: fmt.Sprintf("giant_posting-%d", i), NormKind: "code", Universe: []string{"_id", "a"}, Batches: []Batch{b}, Tags: []string{"giant_posting"}}
	sc.Ops = append(sc.Ops, Op{Op: "build", Seg: 1, Batch: 0, Mode: []uint32{0, 1, 2}[i%3]},
		Op{Op: "pl_open", Seg: 1, Field: "a", Term: B([]byte("x")), Pl: 10}, Op{Op: "it_open", Pl: 10, It: 20, Freq: true, Norm: true, Locs: true})
	for k := 0; k < 5; k++ {
		sc.Ops = append(sc.Ops, Op{Op: "it_next", It: 20})
	}
	// the giant posting skipped
	sc.Ops = append(sc.Ops, Op{Op: "it_open", Pl: 10, It: 21, Freq: true, Norm: true, Locs: true}, Op{Op: "it_adv", It: 21, D: 2}, Op{Op: "it_next", It: 21}, Op{Op: "it_next", It: 21})
	return sc
}

// big_freq: term frequencies near 2^31 in a few dozen documents: SumTotalTermFrequency passes 2^32, 2^35 and
// 2^36 - the widths at which a 64-bit counter is most easily cut short; built, persisted, loaded, merged (C16)
func genBigFreq(r *rand.Rand, i int) Scenario {
	mk := func(n, base int) Batch {
		b := make(Batch, n)
		for d := 0; d < n; d++ {
			id := []byte(fmt.Sprintf("b%d", base+d))
			f := 2147483647 - r.Intn(1000)
			if d%5 == 4 {
				f = 1 + r.Intn(100)
			}
			b[d] = Doc{{Name: "_id", Len: 1, Stored: true, Value: B(id), Terms: []TermOcc{{Term: B(id), Freq: 1, Locs: []Loc{}}}},
				{Name: "a", Len: f, Value: Bytes{}, Terms: []TermOcc{{Term: B([]byte("t")), Freq: f, Locs: []Loc{}}}}}
		}
		return b
	}
	n1 := []int{3, 18, 40, 70}[i%4] // sums around 2^32.6, 2^35.1, 2^36, 2^37
	b1, b2 := mk(n1, 0), mk(20+r.Intn(10), 1000)
	sc := Scenario{Name: fmt.Sprintf("big_freq-%d", i), NormKind: "const", Universe: []string{"_id", "a"}, Batches: []Batch{b1, b2}, Tags: []string{"big_freq"}}
	sc.Ops = append(sc.Ops, Op{Op: "build", Seg: 1, Batch: 0, Mode: 0}, Op{Op: "build", Seg: 2, Batch: 1, Mode: 0},
		Op{Op: "stats", Seg: 1, Field: "a"}, Op{Op: "stats", Seg: 2, Field: "a"},
		Op{Op: "persist", Seg: 1, File: 1}, Op{Op: "load", File: 1, Seg: 3, Backing: []string{"mem", "file"}[i%2]}, Op{Op: "stats", Seg: 3, Field: "a"},
		Op{Op: "merge", File: 2, In: []int{1, 2}, Drops: []DropSpec{{Kind: "nil"}, {Kind: "set", Docs: []int{0}}}, Mode: 0, Buf: 4096},
		Op{Op: "load", File: 2, Seg: 4, Backing: "mem"}, Op{Op: "stats", Seg: 4, Field: "a"}, Op{Op: "stats", Seg: 4, Field: "_id"},
		Op{Op: "stats_merge", Seg: 3, Seg2: 4, Field: "a"},
		Op{Op: "pl_open", Seg: 4, Field: "a", Term: B([]byte("t")), Pl: 10}, Op{Op: "it_open", Pl: 10, It: 20, Freq: true, Norm: true, Locs: true},
		Op{Op: "it_next", It: 20}, Op{Op: "it_next", It: 20}, Op{Op: "it_adv", It: 20, D: n1})
	return sc
}

// big_stored: one 128-document stored block whose records add up to several megabytes (six or seven 1 MiB values,
// each a run of its own byte value) followed by ordinary documents: blocks are still found by document number / 128
// on the built, the loaded and both kinds of merged segment (C04, C06)
func genBigStored(r *rand.Rand, i int) Scenario {
	nbig := 5 + r.Intn(4)
	variant := i % 3
	if i >= 3 && variant == 2 {
		variant = 1 // the 69 MiB block once per run
	}
	if variant == 2 {
		nbig = 3
	}
	n := nbig + 3 + r.Intn(140)
	b := make(Batch, n)
	for d := 0; d < n; d++ {
		id := []byte(fmt.Sprintf("g%03d", d))
		doc := Doc{{Name: "_id", Len: 1, Stored: true, Value: B(id), Terms: []TermOcc{{Term: B(id), Freq: 1, Locs: []Loc{}}}}}
		if d < nbig {
			var val Bytes
			switch variant {
			case 1: // incompressible: the segment itself exceeds a megabyte
				val = PrngBlob(1000*i+d, 300000+d*1000)
			case 2: // three values whose block exceeds 64 MiB uncompressed
				val = make(Bytes, 23<<20+d*1000)
				for k := range val {
					val[k] = 'a' + d
				}
			default:
				val = make(Bytes, 1<<20+d*1000)
				for k := range val {
					val[k] = 'a' + d
				}
			}
			doc = append(doc, FieldInst{Name: "body", Len: 1, Stored: true, Value: val, Terms: []TermOcc{{Term: B([]byte("x")), Freq: 1, Locs: []Loc{}}}})
		} else {
			doc = append(doc, FieldInst{Name: "body", Len: 1, Stored: true, Value: B([]byte(fmt.Sprintf("small-%d", d))), Terms: []TermOcc{{Term: B([]byte("y")), Freq: 1, Locs: []Loc{}}}})
		}
		b[d] = doc
	}
	sc := Scenario{Name: fmt.Sprintf("big_stored-%d", i), NormKind: "code", Universe: []string{"_id", "body"}, Batches: []Batch{b}, Tags: []string{"big_stored"}}
	sc.Ops = append(sc.Ops, Op{Op: "build", Seg: 1, Batch: 0, Mode: 0}, Op{Op: "persist", Seg: 1, File: 1},
		Op{Op: "load", File: 1, Seg: 2, Backing: []string{"mem", "file"}[i%2]},
		Op{Op: "merge", File: 2, In: []int{1}, Drops: []DropSpec{{Kind: "nil"}}, Mode: 0, Buf: 4096}, Op{Op: "load", File: 2, Seg: 3, Backing: "mem"},
		Op{Op: "merge", File: 3, In: []int{2}, Drops: []DropSpec{{Kind: "set", Docs: []int{1}}}, Mode: 0, Buf: 4096}, Op{Op: "load", File: 3, Seg: 4, Backing: "mem"},
		Op{Op: "layout", File: 1})
	for _, seg := range []int{1, 2, 3, 4} {
		for _, d := range []int{0, nbig - 1, nbig, nbig + 1, n - 2, n - 1, 3, 127, 128} {
			if d >= 0 && d < n+1 {
				sc.Ops = append(sc.Ops, Op{Op: "stored", Seg: seg, N: d})
			}
		}
	}
	return sc
}

// proc_history: the same batch built in fresh processes whose first build differs - nothing, a tiny batch, a large
// compressible batch, the batch itself - and in this process; all bytes must agree: New's output depends on nothing
// a process has done before, pooled or global (C14)
func genProcHistory(r *rand.Rand, i int) Scenario {
	mk := func(n int, big bool) Batch {
		b := make(Batch, n)
		for d := 0; d < n; d++ {
			id := []byte(fmt.Sprintf("p%04d", d))
			val := []byte("v")
			if big {
				val = []byte(strings.Repeat(fmt.Sprintf("compressible text %d ", d%7), 40))
			}
			b[d] = Doc{{Name: "_id", Len: 1, Stored: true, Value: B(id), Terms: []TermOcc{{Term: B(id), Freq: 1, Locs: []Loc{}}}},
				{Name: "body", Len: 2, Stored: true, DV: d%2 == 0, Value: B(val), Terms: []TermOcc{{Term: B([]byte("common")), Freq: 1, Locs: []Loc{{Field: "", Pos: 1, Start: 0, End: 6}}},
					{Term: B([]byte(fmt.Sprintf("t%d", d%13))), Freq: 1, Locs: []Loc{}}}}}
		}
		return b
	}
	probe := mk(40+r.Intn(300), true) // stored chunks well above 1 KiB, compressible
	tiny := mk(1, false)
	large := mk(200, true)
	sc := Scenario{Name: fmt.Sprintf("proc_history-%d", i), NormKind: "code", Universe: []string{"_id", "body"}, Batches: []Batch{probe, tiny, large},
		Tags: []string{"proc_history"}}
	mode := []uint32{0, 1024, 3}[i%3]
	sc.Ops = append(sc.Ops,
		Op{Op: "build_fresh", Seg: 1, Batch: 0, Mode: mode, N: -1}, // the batch as the first thing a process does
		Op{Op: "build_fresh", Seg: 2, Batch: 0, Mode: mode, N: 1},  // after a tiny build
		Op{Op: "build_fresh", Seg: 3, Batch: 0, Mode: mode, N: 2},  // after a large build
		Op{Op: "build_fresh", Seg: 4, Batch: 0, Mode: mode, N: 0},  // after itself
		Op{Op: "build", Seg: 5, Batch: 0, Mode: mode},              // in this (long running) process
		Op{Op: "build_fresh", Seg: 6, Batch: 1, Mode: mode, N: 2}, Op{Op: "build_fresh", Seg: 7, Batch: 1, Mode: mode, N: -1}, Op{Op: "build", Seg: 8, Batch: 1, Mode: mode})
	return sc
}

// copy_boundary: merges on the stored-field byte-copy path (equal field lists, nothing deleted) whose 128-document
// OUTPUT blocks end in the middle of a copied SOURCE block - inputs that are themselves merges, so that their
// blocks do not line up with the output's; all bracketings compared (C02, C06, C17)
func genCopyBoundary(r *rand.Rand, i int) Scenario {
	sizes := [][3]int{{100, 28, 50}, {127, 1, 130}, {60, 70, 140}, {1, 127, 2}, {129, 127, 5}, {90, 90, 90}}[i%6]
	mk := func(n, base int) Batch {
		b := make(Batch, n)
		for d := 0; d < n; d++ {
			id := []byte(fmt.Sprintf("c%05d", base+d))
			b[d] = Doc{{Name: "_id", Len: 1, Stored: true, Value: B(id), Terms: []TermOcc{{Term: B(id), Freq: 1, Locs: []Loc{}}}},
				{Name: "v", Len: 1, Stored: true, Value: B([]byte(fmt.Sprintf("value-%d-%s", base+d, strings.Repeat("x", (base+d)%17)))), Terms: []TermOcc{{Term: B([]byte("t")), Freq: 1, Locs: []Loc{}}}}}
		}
		return b
	}
	a, b, c := mk(sizes[0], 0), mk(sizes[1], 1000), mk(sizes[2], 2000)
	sc := Scenario{Name: fmt.Sprintf("copy_boundary-%d", i), NormKind: "code", Universe: []string{"_id", "v"}, Batches: []Batch{a, b, c}, Tags: []string{"copy_boundary"}}
	nd := func(k int) []DropSpec {
		d := make([]DropSpec, k)
		for x := range d {
			d[x] = []DropSpec{{Kind: "nil"}, {Kind: "set", Docs: []int{}}}[r.Intn(2)]
		}
		return d
	}
	sc.Ops = append(sc.Ops, Op{Op: "build", Seg: 1, Batch: 0, Mode: 0}, Op{Op: "build", Seg: 2, Batch: 1, Mode: 0}, Op{Op: "build", Seg: 3, Batch: 2, Mode: 0},
		Op{Op: "merge", File: 10, In: []int{1, 2, 3}, Drops: nd(3), Mode: 0, Buf: 4096}, Op{Op: "load", File: 10, Seg: 10, Backing: "mem"},
		Op{Op: "merge", File: 11, In: []int{2, 3}, Drops: nd(2), Mode: 0, Buf: 4096}, Op{Op: "load", File: 11, Seg: 11, Backing: []string{"mem", "file"}[i%2]},
		Op{Op: "merge", File: 12, In: []int{1, 11}, Drops: nd(2), Mode: 0, Buf: 4096}, Op{Op: "load", File: 12, Seg: 12, Backing: "mem"},
		Op{Op: "merge", File: 13, In: []int{1, 2}, Drops: nd(2), Mode: 0, Buf: 4096}, Op{Op: "load", File: 13, Seg: 13, Backing: "mem"},
		Op{Op: "merge", File: 14, In: []int{13, 3}, Drops: nd(2), Mode: 0, Buf: 4096}, Op{Op: "load", File: 14, Seg: 14, Backing: "mem"})
	total := sizes[0] + sizes[1] + sizes[2]
	for _, seg := range []int{10, 12, 14} {
		for d := 0; d < total+1; d++ {
			if d < 3 || d > total-3 || (d%128 >= 125 || d%128 <= 2) || d%37 == 0 {
				sc.Ops = append(sc.Ops, Op{Op: "stored", Seg: seg, N: d})
			}
		}
	}
	sc.Ops = append(sc.Ops, Op{Op: "same_obs", In: []int{10, 12, 14}})
	return sc
}
