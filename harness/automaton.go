package main

// Small hand-written automata for the abstract predicate kinds of IceData!AutAccepts.

import segment "github.com/blugelabs/bluge_segment_api"

type trieAut struct {
	next  []map[byte]int // state -> byte -> state
	match []bool
	sink  bool // prefix automaton: once matched, always matched
}

const deadState = -1

func (a *trieAut) Start() int { return 0 }
func (a *trieAut) IsMatch(s int) bool {
	return s >= 0 && a.match[s]
}
func (a *trieAut) CanMatch(s int) bool { return s >= 0 }
func (a *trieAut) WillAlwaysMatch(s int) bool {
	return a.sink && s >= 0 && a.match[s]
}
func (a *trieAut) Accept(s int, b byte) int {
	if s < 0 {
		return deadState
	}
	if a.sink && a.match[s] {
		return s
	}
	if n, ok := a.next[s][b]; ok {
		return n
	}
	return deadState
}

func newTrie(words [][]byte, sink bool) *trieAut {
	a := &trieAut{next: []map[byte]int{{}}, match: []bool{false}, sink: sink}
	for _, w := range words {
		s := 0
		for _, b := range w {
			n, ok := a.next[s][b]
			if !ok {
				n = len(a.next)
				a.next = append(a.next, map[byte]int{})
				a.match = append(a.match, false)
				a.next[s][b] = n
			}
			s = n
		}
		a.match[s] = true
	}
	return a
}

type noneAut struct{}

func (noneAut) Start() int               { return deadState }
func (noneAut) IsMatch(int) bool         { return false }
func (noneAut) CanMatch(int) bool        { return false }
func (noneAut) WillAlwaysMatch(int) bool { return false }
func (noneAut) Accept(int, byte) int     { return deadState }

type allAut struct{}

func (allAut) Start() int               { return 0 }
func (allAut) IsMatch(int) bool         { return true }
func (allAut) CanMatch(int) bool        { return true }
func (allAut) WillAlwaysMatch(int) bool { return true }
func (allAut) Accept(int, byte) int     { return 0 }

func makeAutomaton(a *Aut) segment.Automaton {
	if a == nil {
		return nil
	}
	switch a.Kind {
	case "prefix":
		return newTrie([][]byte{a.P.Raw()}, true)
	case "oneof":
		ws := make([][]byte, len(a.Terms))
		for i := range a.Terms {
			ws[i] = a.Terms[i].Raw()
		}
		return newTrie(ws, false)
	case "none":
		return noneAut{}
	case "all":
		return allAut{}
	}
	return nil // "nilaut"
}
