package main

// Fault and concurrency scenario families (C09, C12, C14, C19).

import (
	"bytes"
	"fmt"
	"math/rand"
	"sort"
	"strings"
)

func init() {
	families["fault_merge"] = genFaultMerge
	families["faults_big"] = genFaultsBig
	families["wide_tail"] = genWideTail
	families["aligned"] = genAligned
	families["fault_dv_partial"] = genFaultDvPartial
	families["conc_write"] = genConcWrite
	families["fault_transient"] = genFaultTransient
	families["fault_then_merge"] = genFaultThenMerge
	families["conc_persist"] = genConcPersist
	families["faults_w"] = genFaultsW
	families["fault_read"] = genFaultRead
	families["conc_free"] = genConcFree
	families["conc_sched"] = genConcSched
	families["conc_build"] = genConcBuild
	families["fault_read_big"] = genFaultReadBig
}

func smallCfg(r *rand.Rand) GenCfg {
	cfg := defaultCfg(r)
	cfg.MaxDocs = 4
	cfg.MinDocs = 1
	cfg.TermsPerInst = 2
	return cfg
}

// faults_w: every byte offset x several buffer sizes for merges and persists of tiny segments (C12)
func genFaultsW(r *rand.Rand, i int) Scenario {
	cfg := smallCfg(r)
	sc := Scenario{Name: fmt.Sprintf("faults_w-%d", i), NormKind: "code", Universe: universeOf(&cfg)}
	seq := 0
	b1 := genBatch(r, &cfg, &seq)
	c2 := cfg
	if i%2 == 1 {
		// differing schemas: the later input knows fields (sorting last and first) that the first input lacks
		c2.Fields = append(append([]string{}, cfg.Fields...), "zlast", "Afirst")
		c2.DvNames = map[string]bool{"zlast": true}
		for k, v := range cfg.DvNames {
			c2.DvNames[k] = v
		}
		c2.MinDocs = 2
		sc.Universe = append(sc.Universe, "zlast", "Afirst")
	}
	b2 := genBatch(r, &c2, &seq)
	d1, d2 := randDrops(r, len(b1)), randDropsNotAll(r, len(b2))
	if i%2 == 1 {
		// every surviving document of the later input carries the extra fields
		for d := range b2 {
			for _, f := range []string{"zlast", "Afirst"} {
				has := false
				for _, fi := range b2[d] {
					has = has || fi.Name == f
				}
				if !has {
					b2[d] = append(b2[d], FieldInst{Name: f, Len: 1, DV: f == "zlast", Value: Bytes{}, Terms: []TermOcc{{Term: B([]byte("w")), Freq: 1, Locs: []Loc{}}}})
				}
			}
		}
		if len(b1) == 0 {
			b1 = Batch{Doc{}}
		}
		// a doc-value field both inputs have, sorting right before the fields only the later input has
		for _, bb := range []Batch{b1, b2} {
			for d := range bb {
				bb[d] = append(bb[d], FieldInst{Name: "zdv", Len: 1, DV: true, Value: Bytes{}, Terms: []TermOcc{{Term: B([]byte(fmt.Sprintf("v%d", d))), Freq: 1, Locs: []Loc{}}}})
			}
		}
		sc.Universe = append(sc.Universe, "zdv")
		if len(d1.Docs) == len(b1) {
			d1 = DropSpec{Kind: "nil"}
		}
		if d1.Kind == "set" && len(d1.Docs) > len(b1) {
			d1 = DropSpec{Kind: "nil"}
		}
	}
	sc.Batches = []Batch{b1, b2}
	_ = r.Intn(4)
	mode := []uint32{0, 2, 0, 1024}[i%4] // 0: the public Merge(...).WriteTo (its own Merger object, used twice by the retry mode)
	sc.Ops = append(sc.Ops,
		Op{Op: "build", Seg: 1, Batch: 0, Mode: pickMode(r)}, Op{Op: "build", Seg: 2, Batch: 1, Mode: pickMode(r)},
		// the fault-free run, validated against Level A like any merge
		Op{Op: "merge", File: 1, In: []int{1, 2}, Drops: []DropSpec{d1, d2}, Mode: mode, Buf: 64},
		Op{Op: "load", File: 1, Seg: 3, Backing: "mem"}, Op{Op: "observe", Seg: 3, Level: "light"},
		Op{Op: "wfaults", In: []int{1, 2}, Drops: []DropSpec{d1, d2}, Mode: mode, Bufs: []int{1, 16, 64, 4096, 0}},
		Op{Op: "wfaults", Seg: 1},
		Op{Op: "persist", Seg: 1, File: 2}, Op{Op: "load", File: 2, Seg: 4, Backing: []string{"mem", "file"}[r.Intn(2)]},
		Op{Op: "wfaults", Seg: 4},
		Op{Op: "wfaults", Seg: 3},
	)
	return sc
}

func readOps(r *rand.Rand, sc *Scenario, seg, count, n int, cfg *GenCfg, base int) []Op {
	var vocab []Pair
	for _, b := range sc.Batches {
		for f, ts := range b.Terms() {
			for t := range ts {
				vocab = append(vocab, Pair{f, B([]byte(t))})
			}
		}
	}
	sort.Slice(vocab, func(i, j int) bool {
		if vocab[i].Field != vocab[j].Field {
			return vocab[i].Field < vocab[j].Field
		}
		return string(vocab[i].Term.Raw()) < string(vocab[j].Term.Raw())
	})
	vocab = append(vocab, Pair{"nosuchfield", B([]byte("x"))}, Pair{"_id", B([]byte("absent"))})
	u := universeOf(cfg)
	ops := []Op{}
	for k := 0; k < n; k++ {
		v := vocab[r.Intn(len(vocab))]
		switch r.Intn(9) {
		case 0:
			ops = append(ops, Op{Op: "dict", Seg: seg, Field: u[r.Intn(len(u))]})
		case 1:
			ops = append(ops, Op{Op: "contains", Seg: seg, Field: v.Field, Term: v.Term})
		case 2, 3:
			ops = append(ops, Op{Op: "pl_open", Seg: seg, Field: v.Field, Term: v.Term, Pl: base + 2*k},
				Op{Op: "it_open_last", It: base + 2*k + 1, Freq: true, Norm: true, Locs: r.Intn(2) == 0},
				Op{Op: "it_next_last"}, Op{Op: "it_next_last"}, Op{Op: "it_adv_last", D: count / 2}, Op{Op: "it_next_last"})
		case 4:
			ops = append(ops, Op{Op: "stored", Seg: seg, N: r.Intn(count + 1)})
		case 5:
			ops = append(ops, Op{Op: "dv_open", Seg: seg, R: base + k, Fields: u[:1+r.Intn(len(u))]})
			if count > 0 {
				ops = append(ops, Op{Op: "dv_visit", R: base + k, N: r.Intn(count)}, Op{Op: "dv_visit", R: base + k, N: r.Intn(count)})
			}
		case 6:
			ops = append(ops, Op{Op: "match", Seg: seg, Pairs: []Pair{v, vocab[r.Intn(len(vocab))]}})
		case 7:
			ops = append(ops, Op{Op: "stats", Seg: seg, Field: u[r.Intn(len(u))]})
		case 8:
			ops = append(ops, Op{Op: "fields", Seg: seg})
		}
	}
	return ops
}

// fault_read: a file-backed segment whose file is closed at every position of a read sequence,
// also exactly inside the critical section of the lazy FST load (C19)
func genFaultRead(r *rand.Rand, i int) Scenario {
	cfg := smallCfg(r)
	cfg.MaxDocs = 5
	sc := Scenario{Name: fmt.Sprintf("fault_read-%d", i), NormKind: "code", Universe: universeOf(&cfg)}
	seq := 0
	cfg.MinDocs, cfg.MaxDocs = 4, 8
	b1 := genBatch(r, &cfg, &seq)
	// one term that every document has: its postings list spans several chunks under modes 1..3
	for d := range b1 {
		occ := TermOcc{Term: B([]byte("common")), Freq: 1 + d%2, Locs: []Loc{}}
		if d%2 == 0 {
			occ.Locs = append(occ.Locs, Loc{Field: "", Pos: 1, Start: 0, End: 6})
		}
		b1[d] = append(b1[d], FieldInst{Name: "body", Len: occ.Freq, Value: Bytes{}, Terms: []TermOcc{occ}})
	}
	sc.Universe = append(sc.Universe, "body")
	sc.Batches = []Batch{b1}
	sc.Ops = append(sc.Ops, Op{Op: "watchdog", Watchdog: 1500},
		Op{Op: "build", Seg: 1, Batch: 0, Mode: []uint32{1, 1, 2, 3, 0}[r.Intn(5)]})
	seg := 2
	if r.Intn(3) == 0 {
		sc.Ops = append(sc.Ops, Op{Op: "merge", File: 1, In: []int{1}, Drops: []DropSpec{{Kind: "nil"}}, Mode: []uint32{1, 2, 0}[r.Intn(3)], Buf: 64})
	} else {
		sc.Ops = append(sc.Ops, Op{Op: "persist", Seg: 1, File: 1})
	}
	sc.Ops = append(sc.Ops, Op{Op: "load", File: 1, Seg: seg, Backing: "file"})
	before := r.Intn(6)
	warm := r.Intn(3)
	if warm == 0 {
		for _, f := range sc.Universe {
			sc.Ops = append(sc.Ops, Op{Op: "contains", Seg: seg, Field: f, Term: B([]byte("x"))}) // the field's FST is cached from here on
		}
	} else if warm == 1 {
		// only the `_id` dictionary is warm when the storage fails: a multi-field DocsMatchingTerms can answer its
		// `_id` terms (1-hit encoded on a merged segment: no storage needed) and meets the failure at another field
		sc.Ops = append(sc.Ops, Op{Op: "contains", Seg: seg, Field: "_id", Term: B([]byte("x"))})
	}
	sc.Ops = append(sc.Ops, readOps(r, &sc, seg, len(b1), before, &cfg, 100)...)
	// iterators and readers opened while the storage is healthy are used again after it failed
	var vocab []Pair
	for f, ts := range b1.Terms() {
		for t := range ts {
			vocab = append(vocab, Pair{f, B([]byte(t))})
		}
	}
	sort.Slice(vocab, func(i, j int) bool {
		if vocab[i].Field != vocab[j].Field {
			return vocab[i].Field < vocab[j].Field
		}
		return string(vocab[i].Term.Raw()) < string(vocab[j].Term.Raw())
	})
	npers := 0
	for k := 0; k < 3 && len(vocab) > 0; k++ {
		v := vocab[r.Intn(len(vocab))]
		if k == 0 {
			v = Pair{"body", B([]byte("common"))}
		}
		po := Op{Op: "pl_open", Seg: seg, Field: v.Field, Term: v.Term, Pl: 700 + k}
		if r.Intn(2) == 0 {
			// deletions: the iterator walks two bitmaps in lock step
			po.Except = &DropSpec{Kind: "set", Docs: keys(subset(r, len(b1), 0.3))}
		}
		sc.Ops = append(sc.Ops, po,
			Op{Op: "it_open", Pl: 700 + k, It: 720 + k, Freq: true, Norm: true, Locs: r.Intn(2) == 0})
		for j := 0; j < r.Intn(3); j++ {
			sc.Ops = append(sc.Ops, Op{Op: "it_next", It: 720 + k})
		}
		npers++
	}
	handOver := len(vocab) > 1 && r.Intn(2) == 0
	if handOver {
		sc.Ops = append(sc.Ops, Op{Op: "pl_open", Seg: seg, Field: "body", Term: B([]byte("common")), Pl: 705}, Op{Op: "pl_count", Pl: 705})
	}
	sc.Ops = append(sc.Ops, Op{Op: "dv_open", Seg: seg, R: 740, Fields: universeOf(&cfg)})
	if len(b1) > 0 {
		sc.Ops = append(sc.Ops, Op{Op: "dv_visit", R: 740, N: 0})
	}
	switch r.Intn(4) {
	case 0:
		sc.Ops = append(sc.Ops, Op{Op: "arm_gate_close", Seg: seg})
	case 1, 2:
		// the storage fails after a few more reads: in the middle of a later call (between its reads)
		sc.Ops = append(sc.Ops, Op{Op: "fail_after", Seg: seg, N: r.Intn(9)})
	default:
		sc.Ops = append(sc.Ops, Op{Op: "close_file", Seg: seg})
	}
	// an iterator obtained before the failure is handed as prealloc to a list that was also obtained before it: the
	// hand-over fails (the chunk tables cannot be read) - and the caller goes on using the handle it still holds
	if npers > 1 && r.Intn(2) == 0 {
		sc.Ops = append(sc.Ops, Op{Op: "it_open", Pl: 700 + 1, It: 720, Prealloc: 720, Freq: true, Norm: true, Locs: true},
			Op{Op: "it_next", It: 720}, Op{Op: "it_next", It: 720})
	}
	// a list obtained before the failure is handed as prealloc to the lookup of another term (with deletions): the
	// lookup fails half-way - and the caller goes on using the list it still holds
	// (the list has no iteration of its own alive: recycling a list that an iterator still reads is the caller's fault)
	if handOver {
		v := vocab[r.Intn(len(vocab))]
		sc.Ops = append(sc.Ops, Op{Op: "pl_open", Seg: seg, Field: v.Field, Term: v.Term, Pl: 705, Prealloc: 705,
			Except: &DropSpec{Kind: "set", Docs: []int{r.Intn(len(b1))}}},
			Op{Op: "pl_count", Pl: 705}, Op{Op: "it_open", Pl: 705, It: 731}, Op{Op: "it_next", It: 731}, Op{Op: "it_next", It: 731},
			Op{Op: "it_open", Pl: 705, It: 732, Freq: true, Norm: true, Locs: true}, Op{Op: "it_next", It: 732}, Op{Op: "it_adv", It: 732, D: 2})
	}
	if warm == 1 {
		var ids, others []Pair
		for _, v := range vocab {
			if v.Field == "_id" {
				ids = append(ids, v)
			} else {
				others = append(others, v)
			}
		}
		if len(ids) > 0 && len(others) > 0 {
			o := others[r.Intn(len(others))]
			sc.Ops = append(sc.Ops, Op{Op: "match", Seg: seg, Pairs: []Pair{ids[0], o, ids[len(ids)-1]}},
				Op{Op: "match", Seg: seg, Pairs: []Pair{o, ids[0]}})
		}
	}
	// DocsMatchingTerms over a list of several pairs (1-hit and general terms): the whole answer, nothing, or an error
	if len(vocab) > 2 {
		pairs := []Pair{}
		for k := 0; k < 5; k++ {
			pairs = append(pairs, vocab[r.Intn(len(vocab))])
		}
		pairs = append(pairs, Pair{"body", B([]byte("common"))}, vocab[r.Intn(len(vocab))])
		sc.Ops = append(sc.Ops, Op{Op: "match", Seg: seg, Pairs: pairs}, Op{Op: "match", Seg: seg, Pairs: pairs[2:]})
	}
	// a caller that keeps calling after an error: more calls than the list has postings
	for k := 0; k < npers; k++ {
		for j := 0; j < 2*len(b1)+3; j++ {
			if j%5 == 4 {
				sc.Ops = append(sc.Ops, Op{Op: "it_adv", It: 720 + k, D: j / 2})
			} else {
				sc.Ops = append(sc.Ops, Op{Op: "it_next", It: 720 + k})
			}
		}
	}
	for d := 0; d < len(b1); d++ {
		sc.Ops = append(sc.Ops, Op{Op: "dv_visit", R: 740, N: d})
	}
	sc.Ops = append(sc.Ops, readOps(r, &sc, seg, len(b1), 8+r.Intn(6), &cfg, 300)...)
	// every field's dictionary twice in a row: the second call must return promptly
	for _, f := range universeOf(&cfg) {
		sc.Ops = append(sc.Ops, Op{Op: "dict", Seg: seg, Field: f}, Op{Op: "contains", Seg: seg, Field: f, Term: B([]byte("x"))})
	}
	// a failed segment as a merge input and as a persist source
	sc.Ops = append(sc.Ops, Op{Op: "merge", File: 9, In: []int{seg}, Drops: []DropSpec{{Kind: "nil"}}, Mode: 0, Buf: 64},
		Op{Op: "persist", Seg: seg, File: 8})
	return sc
}

// conc_free: goroutines reading one segment at once, optionally while it is merged (C09).
// Run under the race detector as well.
func genConcFree(r *rand.Rand, i int) Scenario {
	cfg := defaultCfg(r)
	cfg.MinDocs, cfg.MaxDocs = 3, 8
	cfg.PStored = 0.9
	if r.Intn(3) == 0 {
		cfg.MinDocs, cfg.MaxDocs = 130, 140 // two stored blocks: the shared cache is contended
		cfg.TermsPerInst = 1
	}
	sc := Scenario{Name: fmt.Sprintf("conc_free-%d", i), NormKind: "code", Universe: universeOf(&cfg)}
	seq := 0
	b1 := genBatch(r, &cfg, &seq)
	b2 := genBatch(r, &cfg, &seq)
	// a field with one term that never has locations and one that always has: iterator objects are handed from
	// the first to the second inside every goroutine
	for d := range b1 {
		b1[d] = append(b1[d], FieldInst{Name: "h", Len: 3, Value: Bytes{}, Terms: []TermOcc{
			{Term: B([]byte("nl")), Freq: 1, Locs: []Loc{}},
			{Term: B([]byte("wl")), Freq: 2, Locs: []Loc{{Field: "", Pos: d + 1, Start: d, End: d + 2}, {Field: "", Pos: d + 9, Start: 1, End: 300 + d}}}}})
	}
	sc.Universe = append(sc.Universe, "h")
	sc.Batches = []Batch{b1, b2}
	sc.Ops = append(sc.Ops, Op{Op: "build", Seg: 1, Batch: 0, Mode: pickMode(r)}, Op{Op: "build", Seg: 2, Batch: 1, Mode: pickMode(r)})
	seg := 1
	switch r.Intn(3) {
	case 1:
		sc.Ops = append(sc.Ops, Op{Op: "persist", Seg: 1, File: 1}, Op{Op: "load", File: 1, Seg: 3, Backing: "mem"})
		seg = 3
	case 2:
		sc.Ops = append(sc.Ops, Op{Op: "persist", Seg: 1, File: 1}, Op{Op: "load", File: 1, Seg: 3, Backing: "file"})
		seg = 3
	}
	ng := 2 + r.Intn(6)
	groups := make([][]Op, ng)
	for g := 0; g < ng; g++ {
		ops := readOps(r, &sc, seg, len(b1), 10+r.Intn(10), &cfg, 1000*(g+1))
		// stored fields of documents in different blocks are the contended resource
		for k := 0; k < 6; k++ {
			ops = append(ops, Op{Op: "stored", Seg: seg, N: r.Intn(len(b1))})
		}
		hb := 1000*(g+1) + 500
		hand := []Op{
			// an absent term first: the reader is handed the shared empty iterator and recycles it from then on
			{Op: "pl_open", Seg: seg, Field: "h", Term: B([]byte("absent")), Pl: hb + 3}, {Op: "it_open", Pl: hb + 3, It: hb + 1, Freq: true, Norm: true, Locs: true},
			{Op: "it_next", It: hb + 1},
			{Op: "pl_open", Seg: seg, Field: "h", Term: B([]byte("nl")), Pl: hb}, {Op: "it_open", Pl: hb, It: hb + 1, Prealloc: hb + 1, Freq: true, Norm: true, Locs: true},
			{Op: "it_next", It: hb + 1}, {Op: "it_next", It: hb + 1},
			{Op: "pl_open", Seg: seg, Field: "h", Term: B([]byte("wl")), Pl: hb + 2}, {Op: "it_open", Pl: hb + 2, It: hb + 1, Prealloc: hb + 1, Freq: true, Norm: true, Locs: true}}
		for k := 0; k < len(b1)+1 && k < 12; k++ {
			hand = append(hand, Op{Op: "it_next", It: hb + 1})
		}
		// and a lookup of another absent term with a fresh iterator: nothing, whatever the others recycled
		hand = append(hand, Op{Op: "pl_open", Seg: seg, Field: "h", Term: B([]byte("absent2")), Pl: hb + 4},
			Op{Op: "it_open", Pl: hb + 4, It: hb + 5, Freq: true, Norm: true, Locs: true}, Op{Op: "it_next", It: hb + 5}, Op{Op: "it_next", It: hb + 5})
		if r.Intn(2) == 0 {
			ops = append(hand, ops...)
		} else {
			ops = append(ops, hand...)
		}
		groups[g] = ops
	}
	if r.Intn(2) == 0 {
		// a merge that has the shared segment as an input, concurrently
		groups = append(groups, []Op{{Op: "merge", File: 20, In: []int{seg, 2}, Drops: []DropSpec{randDropsNotAll(r, len(b1)), randDrops(r, len(b2))}, Mode: 0, Buf: 64}})
	}
	sc.Ops = append(sc.Ops, Op{Op: "par", Groups: groups})
	sc.Ops = append(sc.Ops, Op{Op: "load", File: 20, Seg: 21, Backing: "mem"}, Op{Op: "observe", Seg: 21, Level: "light"})
	return sc
}

// conc_sched: two or three readers released step by step at the gate points (after the block is
// decompressed, in every visitor callback, inside the FST critical section), plus nested
// visits from inside a callback (C09). Schedules are random here; the StoredRead/FstCache
// models emit the exhaustive ones (E2).
func genConcSched(r *rand.Rand, i int) Scenario {
	cfg := defaultCfg(r)
	cfg.PStored = 1
	cfg.PNoID = 0
	cfg.PEmptyDoc = 0
	two := r.Intn(2) == 0
	if two {
		cfg.MinDocs, cfg.MaxDocs = 129, 133
		cfg.TermsPerInst = 1
	} else {
		cfg.MinDocs, cfg.MaxDocs = 2, 5
	}
	sc := Scenario{Name: fmt.Sprintf("conc_sched-%d", i), NormKind: "code", Universe: universeOf(&cfg)}
	seq := 0
	b1 := genBatch(r, &cfg, &seq)
	sc.Batches = []Batch{b1}
	sc.Ops = append(sc.Ops, Op{Op: "build", Seg: 1, Batch: 0, Mode: 0})
	seg := 1
	if r.Intn(2) == 0 {
		sc.Ops = append(sc.Ops, Op{Op: "persist", Seg: 1, File: 1}, Op{Op: "load", File: 1, Seg: 2, Backing: []string{"mem", "file"}[r.Intn(2)]})
		seg = 2
	}
	n := len(b1)
	pick := func() int {
		if two && r.Intn(2) == 0 {
			return 128 + r.Intn(n-128)
		}
		if two {
			return r.Intn(128)
		}
		return r.Intn(n)
	}
	np := 2 + r.Intn(2)
	groups := make([][]Op, np)
	u := universeOf(&cfg)
	for p := 0; p < np; p++ {
		ops := []Op{}
		for k := 0; k < 1+r.Intn(2); k++ {
			o := Op{Op: "stored", Seg: seg, N: pick()}
			if r.Intn(3) == 0 {
				o.Nested = &Op{Op: "stored", Seg: seg, N: pick()}
			}
			ops = append(ops, o)
			if r.Intn(2) == 0 {
				ops = append(ops, Op{Op: "dict", Seg: seg, Field: u[r.Intn(len(u))]})
			}
		}
		groups[p] = ops
	}
	var after []Op
	if i%3 == 2 {
		// a merge that has the segment as an input runs as one of the processes; another process opens the
		// dictionaries of the fields (handles kept by the harness) while the merge is inside those fields;
		// the handles are used again after the merge has finished
		sc.Ops = append(sc.Ops, Op{Op: "persist", Seg: 1, File: 7}, Op{Op: "load", File: 7, Seg: 7, Backing: "mem"})
		seg = 7 // a fresh object: no dictionary cached yet
		fs := append([]string{}, u...)
		sort.Slice(fs, func(a, b int) bool { return fs[a] == "_id" || (fs[b] != "_id" && fs[a] < fs[b]) })
		holder := []Op{}
		for _, f := range fs {
			holder = append(holder, Op{Op: "contains", Seg: seg, Field: f, Term: B([]byte("x")), ReuseD: true})
			after = append(after, Op{Op: "contains", Seg: seg, Field: f, Term: B([]byte("x")), ReuseD: true},
				Op{Op: "dict", Seg: seg, Field: f, ReuseD: true})
		}
		// the merge partner brings a field of its own whose name sorts between the fields of the segment being read
		mid := "a0"
		for _, f := range fs {
			if f != "_id" {
				mid = f + "0"
				break
			}
		}
		sc.Universe = append(sc.Universe, mid)
		sc.Batches = append(sc.Batches, Batch{Doc{{Name: "_id", Len: 1, Stored: true, Value: B([]byte("x9")), Terms: []TermOcc{{Term: B([]byte("x9")), Freq: 1, Locs: []Loc{}}}},
			{Name: mid, Len: 1, Stored: true, Value: B([]byte("mv")), Terms: []TermOcc{{Term: B([]byte("mt")), Freq: 1, Locs: []Loc{}}}}}})
		sc.Ops = append(sc.Ops, Op{Op: "build", Seg: 9, Batch: 1, Mode: 0})
		mergeOp := Op{Op: "merge", File: 30, In: []int{seg, 9}, Drops: []DropSpec{randDrops(r, len(b1)), {Kind: "nil"}}, Mode: 0, Buf: 64}
		if i%6 == 2 {
			// equal field lists and nothing deleted in the segment being read: the merger copies its stored blocks
			// while readers visit other blocks of it
			mergeOp = Op{Op: "merge", File: 30, In: []int{seg, 1}, Drops: []DropSpec{{Kind: "nil"}, randDrops(r, len(b1))}, Mode: 0, Buf: 1}
		}
		groups = [][]Op{{mergeOp}, holder,
			{{Op: "fields", Seg: seg}, {Op: "stored", Seg: seg, N: 0}, {Op: "fields", Seg: seg}, {Op: "stored", Seg: seg, N: len(b1) - 1}}}
		after = append(after, Op{Op: "fields", Seg: seg}, Op{Op: "stored", Seg: seg, N: 0}, Op{Op: "observe", Seg: seg, Level: "light"},
			Op{Op: "load", File: 30, Seg: 31, Backing: "mem"}, Op{Op: "observe", Seg: 31, Level: "light"})
		np = 3
	}
	sched := make([]int, 6+r.Intn(20))
	for k := range sched {
		sched[k] = 1 + r.Intn(np)
	}
	sc.Ops = append(sc.Ops, Op{Op: "sched", Groups: groups, Schedule: sched})
	if len(after) > 0 {
		sc.Ops = append(sc.Ops, Op{Op: "par", Groups: [][]Op{after}}) // still part of the concurrent history (C09)
	}
	// nested visits without any concurrency
	for k := 0; k < 3; k++ {
		sc.Ops = append(sc.Ops, Op{Op: "stored", Seg: seg, N: pick(), Nested: &Op{Op: "stored", Seg: seg, N: pick()}})
	}
	// reads of the segment issued from inside the destination a merge writes to (a small merge buffer: the writes
	// happen while the merger is in the middle of a stored block it copies - equal field lists, nothing deleted)
	if n > 128 {
		for k, d := range []int{0, n - 1} {
			sc.Ops = append(sc.Ops, Op{Op: "merge", File: 60 + k, In: []int{seg, seg}, Drops: []DropSpec{{Kind: "nil"}, {Kind: "nil"}}, Mode: 0, Buf: []int{1, 64}[k],
				Nested: &Op{Op: "stored", Seg: seg, N: d}},
				Op{Op: "load", File: 60 + k, Seg: 60 + k, Backing: "mem"})
			for _, x := range []int{0, 1, 127, 128, 129, n - 1, n, n + 127, n + 128, n + 129, 2*n - 1} {
				sc.Ops = append(sc.Ops, Op{Op: "stored", Seg: 60 + k, N: x})
			}
		}
	}
	// reads of the segment issued from inside doc-value callbacks - of the first visits of fresh readers on a
	// fresh segment object (no dictionary cached yet): a dictionary, another reader's first visit, stored fields
	sc.Ops = append(sc.Ops, Op{Op: "persist", Seg: 1, File: 8}, Op{Op: "load", File: 8, Seg: 8, Backing: []string{"mem", "file"}[i%2]})
	for k := 0; k < 4; k++ {
		rd := 40 + 2*k
		sc.Ops = append(sc.Ops, Op{Op: "dv_open", Seg: 8, R: rd, Fields: u}, Op{Op: "dv_open", Seg: 8, R: rd + 1, Fields: u})
		f := u[r.Intn(len(u))]
		nested := []Op{{Op: "dict", Seg: 8, Field: f}, {Op: "dv_visit", R: rd + 1, N: r.Intn(n)},
			{Op: "contains", Seg: 8, Field: f, Term: B([]byte("x"))}, {Op: "stored", Seg: 8, N: r.Intn(n)}}[(k+i)%4]
		for v := 0; v < 3; v++ {
			o := Op{Op: "dv_visit", R: rd, N: r.Intn(n)}
			if v < 2 {
				nn := nested
				o.Nested = &nn
			}
			sc.Ops = append(sc.Ops, o)
		}
	}
	return sc
}

// conc_build: concurrent builders; bytes must equal the cold sequential bytes (C14)
func genConcBuild(r *rand.Rand, i int) Scenario {
	cfg := defaultCfg(r)
	sc := Scenario{Name: fmt.Sprintf("conc_build-%d", i), NormKind: "code", Universe: universeOf(&cfg)}
	seq := 0
	nb := 2 + r.Intn(3)
	modes := make([]uint32, nb)
	for j := 0; j < nb; j++ {
		c := cfg
		if r.Intn(2) == 0 {
			c.MaxDocs = 12
			c.TermsPerInst = 4
		}
		sc.Batches = append(sc.Batches, genBatch(r, &c, &seq))
		modes[j] = pickMode(r)
		sc.Ops = append(sc.Ops, Op{Op: "build", Seg: j + 1, Batch: j, Mode: modes[j], Cold: true})
	}
	ng := 2 + r.Intn(7)
	groups := make([][]Op, ng)
	h := 100
	for g := 0; g < ng; g++ {
		for k := 0; k < 3+r.Intn(4); k++ {
			j := r.Intn(nb)
			h++
			groups[g] = append(groups[g], Op{Op: "build", Seg: h, Batch: j, Mode: modes[j]})
		}
	}
	sc.Ops = append(sc.Ops, Op{Op: "par", Groups: groups})
	return sc
}

// fault_read_big: a file-backed segment with several doc-value chunks and multi-chunk postings; readers and
// iterators warmed on one chunk, the storage fails, other chunks are asked for (errors), then the warmed
// chunk again - every call must return an error, nothing, or the right answer (C19)
func genFaultReadBig(r *rand.Rand, i int) Scenario {
	n := 1030 + r.Intn(1100)
	b := make(Batch, n)
	for d := 0; d < n; d++ {
		doc := Doc{}
		if d%9 == 7 || d == n-1 || d == 1024 || d == 1050 {
			doc = append(doc, FieldInst{Name: "f", Len: 1, DV: true, Value: Bytes{}, Terms: []TermOcc{{Term: B([]byte(fmt.Sprintf("v%04d", d%100))), Freq: 1, Locs: []Loc{}}}})
		}
		if d%2 == 0 {
			doc = append(doc, FieldInst{Name: "g", Len: 2, Value: Bytes{}, Terms: []TermOcc{{Term: B([]byte("common")), Freq: 2, Locs: []Loc{{Field: "", Pos: 1, Start: 0, End: 6}}}}})
		}
		b[d] = doc
	}
	sc := Scenario{Name: fmt.Sprintf("fault_read_big-%d", i), NormKind: "code", Universe: []string{"_id", "f", "g"}, Batches: []Batch{b},
		Tags: []string{"fault_read_big"}}
	sc.Ops = append(sc.Ops, Op{Op: "watchdog", Watchdog: 3000}, Op{Op: "build", Seg: 1, Batch: 0, Mode: []uint32{0, 100, 1024}[i%3]},
		Op{Op: "persist", Seg: 1, File: 1}, Op{Op: "load", File: 1, Seg: 2, Backing: "file"},
		Op{Op: "dv_open", Seg: 2, R: 1, Fields: []string{"f"}})
	// warm the reader on chunk 0 - with documents that have no value (chunk loaded, never decompressed) or with values
	warm := []int{0, 1, 2, 3}
	if i%2 == 1 {
		warm = []int{0, 7, 1, 16}
	}
	for _, d := range warm {
		sc.Ops = append(sc.Ops, Op{Op: "dv_visit", R: 1, N: d})
	}
	sc.Ops = append(sc.Ops, Op{Op: "pl_open", Seg: 2, Field: "g", Term: B([]byte("common")), Pl: 10},
		Op{Op: "it_open", Pl: 10, It: 20, Freq: true, Norm: true, Locs: true}, Op{Op: "it_next", It: 20}, Op{Op: "it_next", It: 20})
	if i%2 == 0 {
		sc.Ops = append(sc.Ops, Op{Op: "close_file", Seg: 2})
	} else {
		// the storage fails after a few more reads: in the middle of loading the next chunk's header or data
		sc.Ops = append(sc.Ops, Op{Op: "fail_after", Seg: 2, N: r.Intn(14)})
	}
	for _, d := range []int{1050, 7, 1024, 16, 25, n - 1, 34, 0} {
		sc.Ops = append(sc.Ops, Op{Op: "dv_visit", R: 1, N: d})
	}
	sc.Ops = append(sc.Ops, Op{Op: "it_adv", It: 20, D: 600}, Op{Op: "it_next", It: 20}, Op{Op: "it_adv", It: 20, D: 1500}, Op{Op: "it_next", It: 20},
		Op{Op: "stored", Seg: 2, N: 0}, Op{Op: "stored", Seg: 2, N: 200}, Op{Op: "dict", Seg: 2, Field: "f"}, Op{Op: "dict", Seg: 2, Field: "g"})
	return sc
}

// conc_persist: the same segment object persisted by several goroutines at once into slow destinations (each call
// is still inside Write when the others start), also while it is being read and merged; every file must carry its
// own CRC over its own bytes and be identical to the sequential one (C09, C11)
func genConcPersist(r *rand.Rand, i int) Scenario {
	cfg := defaultCfg(r)
	cfg.MinDocs, cfg.MaxDocs = 2, 8
	sc := Scenario{Name: fmt.Sprintf("conc_persist-%d", i), NormKind: "code", Universe: universeOf(&cfg), Tags: []string{"conc_persist"}}
	seq := 0
	b1 := genBatch(r, &cfg, &seq)
	sc.Batches = []Batch{b1}
	sc.Ops = append(sc.Ops, Op{Op: "build", Seg: 1, Batch: 0, Mode: pickMode(r)}, Op{Op: "persist", Seg: 1, File: 1})
	seg := 1
	if i%2 == 1 {
		sc.Ops = append(sc.Ops, Op{Op: "load", File: 1, Seg: 2, Backing: []string{"mem", "file"}[r.Intn(2)]})
		seg = 2
	}
	ng := 2 + r.Intn(3)
	groups := make([][]Op, ng)
	for g := 0; g < ng; g++ {
		ops := []Op{}
		for k := 0; k < 2; k++ {
			ops = append(ops, Op{Op: "persist", Seg: seg, File: 100 + 10*g + k, Slow: true})
		}
		if g == ng-1 && r.Intn(2) == 0 {
			ops = append(ops, Op{Op: "merge", File: 90, In: []int{seg}, Drops: []DropSpec{{Kind: "nil"}}, Mode: 0, Buf: 64, Slow: true})
		}
		groups[g] = ops
	}
	sc.Ops = append(sc.Ops, Op{Op: "par", Groups: groups}, Op{Op: "persist", Seg: seg, File: 200},
		Op{Op: "load", File: 100, Seg: 50, Backing: "mem"}, Op{Op: "observe", Seg: 50, Level: "light"},
		Op{Op: "load", File: 111, Seg: 51, Backing: "mem"}, Op{Op: "observe", Seg: 51, Level: "light"})
	return sc
}

// fault_then_merge: merges abandoned half-way (the destination fails at various offsets, or the close channel is
// closed) followed by reads of the INPUT segments and by a healthy merge of the same inputs - nothing an abandoned
// merge leaves behind (pooled scratch, dictionaries it opened) may show (C08, C15, C02)
func genFaultThenMerge(r *rand.Rand, i int) Scenario {
	cfg := smallCfg(r)
	cfg.MinDocs, cfg.MaxDocs = 2, 6
	cfg.PNoID = 0
	sc := Scenario{Name: fmt.Sprintf("fault_then_merge-%d", i), NormKind: "code", Universe: universeOf(&cfg), Tags: []string{"fault_then_merge"}}
	seq := 0
	b1 := genBatch(r, &cfg, &seq)
	b2 := genBatch(r, &cfg, &seq)
	sc.Batches = []Batch{b1, b2}
	sc.Ops = append(sc.Ops, Op{Op: "build", Seg: 1, Batch: 0, Mode: pickMode(r)}, Op{Op: "build", Seg: 2, Batch: 1, Mode: pickMode(r)})
	if i%2 == 1 {
		sc.Ops = append(sc.Ops, Op{Op: "persist", Seg: 1, File: 1}, Op{Op: "load", File: 1, Seg: 1, Backing: []string{"mem", "file"}[r.Intn(2)]})
	}
	sc.Ops = append(sc.Ops, Op{Op: "digest"})
	d1, d2 := randDropsNotAll(r, len(b1)), randDropsNotAll(r, len(b2))
	offs := []int{-1, 30, 120, 250, 400, 600, 800, 1000, 1300, 1700}
	r.Shuffle(len(offs), func(a, b int) { offs[a], offs[b] = offs[b], offs[a] })
	for k, n := range offs[:5] {
		sc.Ops = append(sc.Ops, Op{Op: "merge_fail", In: []int{1, 2}, Drops: []DropSpec{d1, d2}, Mode: 0, Buf: []int{1, 16, 64}[r.Intn(3)], N: n},
			Op{Op: "observe", Seg: 1 + k%2, Level: "light"},
			Op{Op: "merge", File: 10 + k, In: []int{1, 2}, Drops: []DropSpec{d1, d2}, Mode: 0, Buf: 64},
			Op{Op: "load", File: 10 + k, Seg: 10 + k, Backing: "mem"}, Op{Op: "observe", Seg: 10 + k, Level: "light"})
		// the statistics of a merge that follows an abandoned one (scratch state the abandoned merge handed back)
		for _, f := range sc.Universe {
			sc.Ops = append(sc.Ops, Op{Op: "stats", Seg: 10 + k, Field: f})
		}
		if k == 1 {
			// a much smaller merge right after an abandoned bigger one
			sc.Ops = append(sc.Ops, Op{Op: "merge_fail", In: []int{1, 2}, Drops: []DropSpec{{Kind: "nil"}, {Kind: "nil"}}, Mode: 0, Buf: 1, N: offs[5+k%5]},
				Op{Op: "merge", File: 30, In: []int{2}, Drops: []DropSpec{d2}, Mode: 0, Buf: 64}, Op{Op: "load", File: 30, Seg: 30, Backing: "mem"})
			for _, f := range sc.Universe {
				sc.Ops = append(sc.Ops, Op{Op: "stats", Seg: 30, Field: f})
			}
		}
	}
	sc.Ops = append(sc.Ops, Op{Op: "digest"}, Op{Op: "observe", Seg: 14, Level: "full"})
	return sc
}

// fault_transient: exactly one read of a file-backed segment fails and the storage works again: the call that hit it
// reports an error (or nothing), and every later call - of the same block, the same field, through the same pooled
// scratch state - answers correctly or with an error, never with another document's data and never with a panic (C19)
func genFaultTransient(r *rand.Rand, i int) Scenario {
	n := 256 + r.Intn(10)
	b := make(Batch, n)
	for d := 0; d < n; d++ {
		id := []byte(fmt.Sprintf("doc-%03d", d))
		pad := make([]byte, 20+(d%7)*13)
		for k := range pad {
			pad[k] = byte('a' + (d+k)%26)
		}
		doc := Doc{{Name: "_id", Len: 1, Stored: true, Value: B(id), Terms: []TermOcc{{Term: B(id), Freq: 1, Locs: []Loc{}}}},
			{Name: "body", Len: 2, Stored: true, Value: B(pad), Terms: []TermOcc{{Term: B([]byte("common")), Freq: 2, Locs: []Loc{{Field: "", Pos: 1, Start: 0, End: 6}}}}}}
		if d%3 == 0 {
			doc = append(doc, FieldInst{Name: "tag", Len: 1, DV: true, Value: Bytes{}, Terms: []TermOcc{{Term: B([]byte(fmt.Sprintf("t%d", d%5))), Freq: 1, Locs: []Loc{}}}})
		}
		b[d] = doc
	}
	sc := Scenario{Name: fmt.Sprintf("fault_transient-%d", i), NormKind: "code", Universe: []string{"_id", "body", "tag"}, Batches: []Batch{b}, Tags: []string{"fault_transient"}}
	sc.Ops = append(sc.Ops, Op{Op: "watchdog", Watchdog: 3000}, Op{Op: "build", Seg: 1, Batch: 0, Mode: []uint32{0, 100, 3}[i%3]},
		Op{Op: "persist", Seg: 1, File: 1}, Op{Op: "load", File: 1, Seg: 2, Backing: "file"})
	// warm some state on block 0 / chunk 0
	warm := [][]Op{
		{{Op: "stored", Seg: 2, N: 5}},
		{{Op: "stored", Seg: 2, N: 5}, {Op: "dv_open", Seg: 2, R: 1, Fields: []string{"tag"}}, {Op: "dv_visit", R: 1, N: 0}},
		{{Op: "dict", Seg: 2, Field: "tag"}, {Op: "pl_open", Seg: 2, Field: "body", Term: B([]byte("common")), Pl: 10}, {Op: "it_open", Pl: 10, It: 20, Freq: true, Norm: true, Locs: true}, {Op: "it_next", It: 20}},
		{},
	}[i%4]
	sc.Ops = append(sc.Ops, warm...)
	sc.Ops = append(sc.Ops, Op{Op: "fail_once", Seg: 2, N: r.Intn(4)})
	// the call that meets the failure, then calls that touch the same block / field / objects
	switch (i / 4) % 3 {
	case 0:
		for _, d := range []int{200, 200, 255, 128, 129, 5, 0, 127, 200} {
			sc.Ops = append(sc.Ops, Op{Op: "stored", Seg: 2, N: d})
		}
	case 1:
		sc.Ops = append(sc.Ops, Op{Op: "dict", Seg: 2, Field: "body"}, Op{Op: "dict", Seg: 2, Field: "body"}, Op{Op: "contains", Seg: 2, Field: "body", Term: B([]byte("common"))},
			Op{Op: "pl_open", Seg: 2, Field: "body", Term: B([]byte("common")), Pl: 11}, Op{Op: "it_open", Pl: 11, It: 21, Freq: true, Norm: true, Locs: true},
			Op{Op: "it_next", It: 21}, Op{Op: "it_next", It: 21}, Op{Op: "it_adv", It: 21, D: 150}, Op{Op: "it_next", It: 21},
			Op{Op: "match", Seg: 2, Pairs: []Pair{{"body", B([]byte("common"))}, {"_id", B([]byte("doc-007"))}}})
	case 2:
		sc.Ops = append(sc.Ops, Op{Op: "dv_open", Seg: 2, R: 2, Fields: []string{"tag", "_id"}})
		for _, d := range []int{3, 6, 252, 255, 0, 9} {
			sc.Ops = append(sc.Ops, Op{Op: "dv_visit", R: 2, N: d})
		}
		sc.Ops = append(sc.Ops, Op{Op: "stats", Seg: 2, Field: "tag"}, Op{Op: "fields", Seg: 2})
	}
	if len(warm) > 2 && warm[0].Op == "dict" {
		sc.Ops = append(sc.Ops, Op{Op: "it_next", It: 20}, Op{Op: "it_adv", It: 20, D: 140}, Op{Op: "it_next", It: 20})
	}
	// the storage is healthy again: a merge of the segment and a fresh look at everything cheap
	sc.Ops = append(sc.Ops, Op{Op: "stored", Seg: 2, N: 200}, Op{Op: "stored", Seg: 2, N: 1}, Op{Op: "dict", Seg: 2, Field: "tag"})
	return sc
}

// conc_write: builders, mergers (also with a one-byte merge buffer into a slow destination) and persists running at
// the same time on different goroutines; every file produced must be the one the same call produces alone (C04, C09,
// C11, C14). Also run under the race detector.
func genConcWrite(r *rand.Rand, i int) Scenario {
	cfg := defaultCfg(r)
	cfg.MinDocs, cfg.MaxDocs = 2, 7
	sc := Scenario{Name: fmt.Sprintf("conc_write-%d", i), NormKind: "code", Universe: universeOf(&cfg), Tags: []string{"conc_write"}}
	seq := 0
	b1, b2, b3 := genBatch(r, &cfg, &seq), genBatch(r, &cfg, &seq), genBatch(r, &cfg, &seq)
	sc.Batches = []Batch{b1, b2, b3}
	m1, m2, m3 := pickMode(r), pickMode(r), pickMode(r)
	d1, d2 := randDropsNotAll(r, len(b1)), randDrops(r, len(b2))
	sc.Ops = append(sc.Ops, Op{Op: "build", Seg: 1, Batch: 0, Mode: m1}, Op{Op: "build", Seg: 2, Batch: 1, Mode: m2}, Op{Op: "build", Seg: 3, Batch: 2, Mode: m3},
		// what each call produces alone
		Op{Op: "merge", File: 1, In: []int{1, 2}, Drops: []DropSpec{d1, d2}, Mode: 0, Buf: 64}, Op{Op: "persist", Seg: 3, File: 2})
	groups := [][]Op{
		{{Op: "merge", File: 11, In: []int{1, 2}, Drops: []DropSpec{d1, d2}, Mode: 0, Buf: 1, Slow: true}},
		{{Op: "build", Seg: 21, Batch: 2, Mode: m3}, {Op: "build", Seg: 22, Batch: 0, Mode: m1}, {Op: "build", Seg: 23, Batch: 1, Mode: m2}, {Op: "build", Seg: 24, Batch: 2, Mode: m3}},
		{{Op: "merge", File: 12, In: []int{1, 2}, Drops: []DropSpec{d1, d2}, Mode: 0, Buf: []int{1, 3, 16}[r.Intn(3)], Slow: true}, {Op: "persist", Seg: 3, File: 13}},
	}
	if r.Intn(2) == 0 {
		groups = append(groups, []Op{{Op: "merge", File: 14, In: []int{3, 2}, Drops: []DropSpec{{Kind: "nil"}, d2}, Mode: 0, Buf: 2, Slow: true}})
	}
	sc.Ops = append(sc.Ops, Op{Op: "par", Groups: groups})
	for _, f := range []int{11, 12} {
		sc.Ops = append(sc.Ops, Op{Op: "load", File: f, Seg: 30 + f, Backing: "mem"}, Op{Op: "observe", Seg: 30 + f, Level: "full"})
	}
	sc.Ops = append(sc.Ops, Op{Op: "load", File: 13, Seg: 50, Backing: "mem"}, Op{Op: "observe", Seg: 50, Level: "light"})
	for _, h := range []int{21, 22, 23, 24} {
		sc.Ops = append(sc.Ops, Op{Op: "observe", Seg: h, Level: "light"})
	}
	return sc
}

// fault_dv_partial: a doc-value reader that has chunk 0 loaded starts loading chunk 1 and the storage fails after
// N more reads - N enumerated over every read of the load (count, header entries, data); then every document of
// chunk 0 is visited again: right values, nothing or an error - never a panic, never another document's terms (C19)
func genFaultDvPartial(r *rand.Rand, i int) Scenario {
	n := 1024 + 6 + i%3
	k0 := 5 + (i/16)%4 // documents with values in chunk 0
	nreads := i % 16
	if (i/16)%3 != 0 {
		nreads = 2 * (i % 16) // two readers to load: the failure may fall into the second field's load
	}
	if (i/256)%2 == 1 {
		// a much larger chunk 0: its offsets lie beyond the end of chunk 1's data
		k0 = 40
		nreads = 2 * (i % 45)
	}
	b := make(Batch, n)
	for d := 0; d < n; d++ {
		b[d] = Doc{}
		if d < k0 || d >= 1024 {
			terms := []TermOcc{{Term: B([]byte(fmt.Sprintf("v%04d", d))), Freq: 1, Locs: []Loc{}}}
			if d%2 == 1 {
				terms = append(terms, TermOcc{Term: B([]byte(fmt.Sprintf("w%d", d))), Freq: 1, Locs: []Loc{}})
			}
			b[d] = Doc{{Name: "f", Len: len(terms), DV: true, Value: Bytes{}, Terms: terms},
				{Name: "g", Len: 1, DV: true, Value: Bytes{}, Terms: []TermOcc{{Term: B([]byte(fmt.Sprintf("g%04d", d))), Freq: 1, Locs: []Loc{}}}}}
		}
	}
	sc := Scenario{Name: fmt.Sprintf("fault_dv_partial-%d", i), NormKind: "code", Universe: []string{"_id", "f", "g"}, Batches: []Batch{b}, Tags: []string{"fault_dv_partial"}}
	sc.Ops = append(sc.Ops, Op{Op: "watchdog", Watchdog: 3000}, Op{Op: "build", Seg: 1, Batch: 0, Mode: 0},
		Op{Op: "persist", Seg: 1, File: 1}, Op{Op: "load", File: 1, Seg: 2, Backing: "file"},
		Op{Op: "dv_open", Seg: 2, R: 1, Fields: [][]string{{"f"}, {"f", "g"}, {"g", "f"}}[(i/16)%3]})
	op := "fail_after"
	if (i/64)%2 == 1 {
		op = "fail_once"
	}
	if (i/128)%2 == 0 {
		// chunk 0 loaded, chunk 1 fails half-way, chunk 0 again
		sc.Ops = append(sc.Ops, Op{Op: "dv_visit", R: 1, N: 0}, Op{Op: "dv_visit", R: 1, N: 1},
			Op{Op: op, Seg: 2, N: nreads}, Op{Op: "dv_visit", R: 1, N: 1024})
		if i%2 == 1 {
			// the caller retries the same chunk at once
			sc.Ops = append(sc.Ops, Op{Op: "dv_visit", R: 1, N: 1024}, Op{Op: "dv_visit", R: 1, N: 1025}, Op{Op: "dv_visit", R: 1, N: n - 1})
		}
		for d := 0; d < k0; d++ {
			sc.Ops = append(sc.Ops, Op{Op: "dv_visit", R: 1, N: d})
		}
		sc.Ops = append(sc.Ops, Op{Op: "dv_visit", R: 1, N: 1025}, Op{Op: "dv_visit", R: 1, N: 2})
	} else {
		// the other way round: chunk 1 loaded, chunk 0 (smaller document numbers) fails half-way, chunk 1 again
		sc.Ops = append(sc.Ops, Op{Op: "dv_visit", R: 1, N: 1024}, Op{Op: "dv_visit", R: 1, N: 1025},
			Op{Op: op, Seg: 2, N: nreads}, Op{Op: "dv_visit", R: 1, N: 0})
		for d := 1024; d < n; d++ {
			sc.Ops = append(sc.Ops, Op{Op: "dv_visit", R: 1, N: d})
		}
		sc.Ops = append(sc.Ops, Op{Op: "dv_visit", R: 1, N: 1}, Op{Op: "dv_visit", R: 1, N: 1026})
	}
	return sc
}

// faults_big: a file-backed segment whose data section is several times 64 KiB, persisted into destinations that
// fail for good or for a single Write at offsets spread over the whole file (C11, C12)
func genFaultsBig(r *rand.Rand, i int) Scenario {
	n := 150 + r.Intn(120)
	b := make(Batch, n)
	for d := 0; d < n; d++ {
		id := []byte(fmt.Sprintf("fb%04d", d))
		val := make([]byte, 900+r.Intn(600))
		r.Read(val) // incompressible: the file stays large
		b[d] = Doc{{Name: "_id", Len: 1, Stored: true, Value: B(id), Terms: []TermOcc{{Term: B(id), Freq: 1, Locs: []Loc{}}}},
			{Name: "blob", Len: 1, Stored: true, Value: B(val), Terms: []TermOcc{{Term: B([]byte("x")), Freq: 1, Locs: []Loc{}}}}}
	}
	sc := Scenario{Name: fmt.Sprintf("faults_big-%d", i), NormKind: "code", Universe: []string{"_id", "blob"}, Batches: []Batch{b}, Tags: []string{"faults_big"}}
	sc.Ops = append(sc.Ops, Op{Op: "build", Seg: 1, Batch: 0, Mode: 0}, Op{Op: "persist", Seg: 1, File: 1},
		Op{Op: "load", File: 1, Seg: 2, Backing: "file"}, Op{Op: "load", File: 1, Seg: 3, Backing: "mem"},
		Op{Op: "wfaults", Seg: 2, Stop: 3000 + r.Intn(2000)}, Op{Op: "wfaults", Seg: 3, Stop: 9000 + r.Intn(2000)}, Op{Op: "wfaults", Seg: 1, Stop: 9000 + r.Intn(2000)},
		Op{Op: "persist", Seg: 2, File: 2}, Op{Op: "stored", Seg: 2, N: n - 1})
	return sc
}

// fault_merge: one read of a file-backed merge input fails while the merge runs (the N-th read from its start, N
// enumerated) and the storage works again: the merge either reports the error or produces the complete, correct
// segment - whatever it had already copied when the read failed (C02, C03, C19)
func genFaultMerge(r *rand.Rand, i int) Scenario {
	n := 130 + r.Intn(170)
	mk := func(n, base int) Batch {
		b := make(Batch, n)
		for d := 0; d < n; d++ {
			id := []byte(fmt.Sprintf("a%04d", base+d))
			doc := Doc{{Name: "_id", Len: 1, Stored: true, Value: B(id), Terms: []TermOcc{{Term: B(id), Freq: 1, Locs: []Loc{}}}},
				{Name: "v", Len: 1, Stored: true, DV: true, Value: B([]byte(fmt.Sprintf("val%s", id))), Terms: []TermOcc{{Term: B([]byte(fmt.Sprintf("t%d", d%9))), Freq: 1, Locs: []Loc{}}}}}
			b[d] = doc
		}
		return b
	}
	a, b := mk(n, 0), mk(3+r.Intn(5), 5000)
	sc := Scenario{Name: fmt.Sprintf("fault_merge-%d", i), NormKind: "code", Universe: []string{"_id", "v"}, Batches: []Batch{a, b}, Tags: []string{"fault_merge"}}
	sc.Ops = append(sc.Ops, Op{Op: "watchdog", Watchdog: 4000}, Op{Op: "build", Seg: 1, Batch: 0, Mode: 0}, Op{Op: "build", Seg: 2, Batch: 1, Mode: 0},
		Op{Op: "persist", Seg: 1, File: 1}, Op{Op: "load", File: 1, Seg: 3, Backing: "file"})
	drops := []DropSpec{{Kind: "nil"}, {Kind: "nil"}}
	if (i/16)%2 == 1 {
		drops[0] = DropSpec{Kind: "set", Docs: []int{r.Intn(n)}} // the re-encode path
	}
	in := []int{3, 2}
	if (i/32)%2 == 1 {
		in = []int{2, 3}
		drops[0], drops[1] = drops[1], drops[0]
	}
	if i%4 == 3 {
		// every read of the merge as failure point: the undisturbed merge first (checked like any merge), then the sweep
		sc.Ops = append(sc.Ops, Op{Op: "merge", File: 11, In: in, Drops: drops, Mode: 0, Buf: 4096}, Op{Op: "load", File: 11, Seg: 11, Backing: "mem"},
			Op{Op: "dict", Seg: 11, Field: "v"}, Op{Op: "dict", Seg: 11, Field: "_id"},
			Op{Op: "merge_fsweep", File: 11, Seg: 3, In: in, Drops: drops, Mode: 0, Buf: 4096, Stop: 1 + r.Intn(3), N: r.Intn(3)})
	}
	sc.Ops = append(sc.Ops, Op{Op: "fail_once", Seg: 3, N: []int{i % 16, 16 + r.Intn(700)}[i%2]},
		Op{Op: "merge", File: 10, In: in, Drops: drops, Mode: 0, Buf: 4096}, Op{Op: "load", File: 10, Seg: 10, Backing: "mem"})
	total := n + len(b)
	for _, d := range []int{0, 1, 126, 127, 128, 129, 130, 200, n - 1, n, total - 2, total - 1, total} {
		if d >= 0 {
			sc.Ops = append(sc.Ops, Op{Op: "stored", Seg: 10, N: d})
		}
	}
	sc.Ops = append(sc.Ops, Op{Op: "dict", Seg: 10, Field: "v"}, Op{Op: "dict", Seg: 10, Field: "_id"}, Op{Op: "dv_open", Seg: 10, R: 1, Fields: []string{"v"}}, Op{Op: "dv_visit", R: 1, N: 129}, Op{Op: "dv_visit", R: 1, N: 0},
		// the input afterwards (the failure was transient): still the segment it was
		Op{Op: "stored", Seg: 3, N: 128}, Op{Op: "stored", Seg: 3, N: 0}, Op{Op: "dict", Seg: 3, Field: "v"},
		// overlapping visits after the abandoned merge: whatever scratch objects it handed back are handed out again
		Op{Op: "stored", Seg: 3, N: 129, Nested: &Op{Op: "stored", Seg: 2, N: 1}},
		Op{Op: "stored", Seg: 2, N: 0, Nested: &Op{Op: "stored", Seg: 3, N: 5, Nested: &Op{Op: "stored", Seg: 3, N: 200 % n}}},
		Op{Op: "stored", Seg: 3, N: 3, Nested: &Op{Op: "stored", Seg: 3, N: 130 % n}})
	return sc
}

// pool_wrap: a recycled builder whose LIFETIME document count passes 65536 (a 16-bit boundary) inside a later batch:
// builds of 65535-j empty documents (one build, or 40000 + the rest), then a small batch whose document j is the
// 65536th document the builder has ever seen and introduces a field of its own; bytes = those of a cold build (C14)
func genPoolWrap(r *rand.Rand, i int) Scenario {
	j := i % 3
	before := 65535 - j
	if (i/6)%2 == 1 {
		before += 65536 // the second lap
	}
	var pre []Batch
	if (i/3)%2 == 0 {
		pre = []Batch{make(Batch, 40000), make(Batch, before-40000)}
	} else {
		pre = []Batch{make(Batch, before)}
	}
	for _, b := range pre {
		for d := range b {
			b[d] = Doc{}
		}
	}
	nc := 3 + r.Intn(3)
	c := make(Batch, nc)
	u := []string{"_id"}
	for d := 0; d < nc; d++ {
		id := []byte(fmt.Sprintf("w%d", d))
		f := fmt.Sprintf("f%d", d)
		u = append(u, f)
		c[d] = Doc{{Name: "_id", Len: 1, Stored: true, Value: B(id), Terms: []TermOcc{{Term: B(id), Freq: 1, Locs: []Loc{}}}},
			{Name: f, Len: 1 + d, DV: d%2 == 0, Value: Bytes{}, Terms: []TermOcc{{Term: B([]byte("t")), Freq: 1 + d, Locs: []Loc{}}}}}
	}
	sc := Scenario{Name: fmt.Sprintf("pool_wrap-%d", i), NormKind: "code", Universe: u, Batches: append(append([]Batch{}, pre...), c), Tags: []string{"pool_wrap"}}
	ci := len(pre)
	sc.Ops = append(sc.Ops, Op{Op: "build", Seg: 1, Batch: ci, Mode: 0, Cold: true}, Op{Op: "build", Seg: 2, Batch: 0, Mode: 0, Cold: true})
	for k := 1; k < len(pre); k++ {
		sc.Ops = append(sc.Ops, Op{Op: "build", Seg: 2 + k, Batch: k, Mode: 0})
	}
	sc.Ops = append(sc.Ops, Op{Op: "build", Seg: 10, Batch: ci, Mode: 0}, Op{Op: "build", Seg: 11, Batch: ci, Mode: 0})
	for _, f := range u {
		sc.Ops = append(sc.Ops, Op{Op: "stats", Seg: 10, Field: f})
	}
	return sc
}

// big_dv: one doc-value chunk of more than 16 MiB - some 420 documents whose single term in field "v" is a run of
// 40 000+ bytes (each its own length) - read back on the built, the loaded and a merged segment (C07, C01, C04)
func genBigDv(r *rand.Rand, i int) Scenario {
	n := 420 + r.Intn(40)
	b := make(Batch, n)
	term := func(d int) Bytes {
		t := make(Bytes, 41000+d)
		for k := range t {
			t[k] = 'a'
		}
		return t
	}
	for d := 0; d < n; d++ {
		id := []byte(fmt.Sprintf("v%03d", d))
		b[d] = Doc{{Name: "_id", Len: 1, Stored: true, Value: B(id), Terms: []TermOcc{{Term: B(id), Freq: 1, Locs: []Loc{}}}},
			{Name: "v", Len: 1, DV: true, Value: Bytes{}, Terms: []TermOcc{{Term: term(d), Freq: 1, Locs: []Loc{}}}}}
	}
	sc := Scenario{Name: fmt.Sprintf("big_dv-%d", i), NormKind: "code", Universe: []string{"_id", "v"}, Batches: []Batch{b}, Tags: []string{"big_dv"}}
	drop := r.Intn(n)
	sc.Ops = append(sc.Ops, Op{Op: "build", Seg: 1, Batch: 0, Mode: 0}, Op{Op: "persist", Seg: 1, File: 1},
		Op{Op: "load", File: 1, Seg: 2, Backing: []string{"mem", "file"}[i%2]},
		Op{Op: "merge", File: 2, In: []int{2}, Drops: []DropSpec{{Kind: "set", Docs: []int{drop}}}, Mode: 0, Buf: 4096}, Op{Op: "load", File: 2, Seg: 3, Backing: "mem"})
	for _, seg := range []int{1, 2, 3} {
		sc.Ops = append(sc.Ops, Op{Op: "dv_open", Seg: seg, R: seg, Fields: []string{"v"}})
		for _, d := range []int{0, 1, n / 2, n - 2} {
			sc.Ops = append(sc.Ops, Op{Op: "dv_visit", R: seg, N: d})
		}
		sc.Ops = append(sc.Ops, Op{Op: "contains", Seg: seg, Field: "v", Term: term(n / 2)}, Op{Op: "contains", Seg: seg, Field: "v", Term: term(n + 5)})
	}
	return sc
}

// twin_persist: three segments of identical layout (same sizes, same section offsets, same document count) and
// different content, persisted one right after the other, then merged one by one, then persisted again in another
// order: every file's footer CRC covers that file's own bytes (C11, C04)
func genTwinPersist(r *rand.Rand, i int) Scenario {
	cfg := defaultCfg(r)
	cfg.MinDocs, cfg.MaxDocs = 1, 4
	cfg.PEmptyDoc, cfg.PNoID = 0, 0
	cfg.PStored = 1
	seq := 0
	b := genBatch(r, &cfg, &seq)
	twin := func(delta int) Batch {
		t := make(Batch, len(b))
		for d := range b {
			t[d] = make(Doc, len(b[d]))
			for k := range b[d] {
				fi := b[d][k]
				if fi.Name != "_id" {
					v := append(Bytes{}, fi.Value...)
					for x := range v {
						v[x] = (v[x] + delta) % 256
					}
					fi.Value = v
				}
				t[d][k] = fi
			}
		}
		return t
	}
	sc := Scenario{Name: fmt.Sprintf("twin_persist-%d", i), NormKind: "code", Universe: universeOf(&cfg), Batches: []Batch{b, twin(1), twin(2)},
		Tags: []string{"twin_persist"}}
	mode := pickMode(r)
	sc.Ops = append(sc.Ops, Op{Op: "build", Seg: 1, Batch: 0, Mode: mode}, Op{Op: "build", Seg: 2, Batch: 1, Mode: mode}, Op{Op: "build", Seg: 3, Batch: 2, Mode: mode},
		Op{Op: "persist", Seg: 1, File: 1}, Op{Op: "persist", Seg: 2, File: 2}, Op{Op: "persist", Seg: 3, File: 3})
	one := []DropSpec{{Kind: "nil"}}
	sc.Ops = append(sc.Ops, Op{Op: "merge", File: 4, In: []int{1}, Drops: one, Mode: mode, Buf: 64}, Op{Op: "merge", File: 5, In: []int{2}, Drops: one, Mode: mode, Buf: 64},
		Op{Op: "merge", File: 6, In: []int{3}, Drops: one, Mode: mode, Buf: 64})
	for f := 1; f <= 6; f++ {
		sc.Ops = append(sc.Ops, Op{Op: "load", File: f, Seg: 10 + f, Backing: []string{"mem", "file"}[(i+f)%2]})
	}
	// loaded twins persisted back to back, in another order
	sc.Ops = append(sc.Ops, Op{Op: "persist", Seg: 13, File: 23}, Op{Op: "persist", Seg: 11, File: 21}, Op{Op: "persist", Seg: 12, File: 22},
		Op{Op: "persist", Seg: 15, File: 25}, Op{Op: "persist", Seg: 14, File: 24})
	for _, f := range []int{21, 22, 23, 24, 25} {
		sc.Ops = append(sc.Ops, Op{Op: "load", File: f, Seg: 10 + f, Backing: "mem"}, Op{Op: "observe", Seg: 10 + f, Level: "light"})
	}
	return sc
}

// adv_boundary: iterations that stand exactly on the last posting of a chunk (or have not started and the first
// posting lies in a later chunk) and then Advance INTO the next chunk by 1, 1023, 1024, 1025, 1026, 1500 ... document
// numbers beyond its first posting; default chunk mode with two to four chunks of more than 1024 documents, and
// legacy modes; enumerated, not sampled (C05)
func genAdvBoundary(r *rand.Rand, i int) Scenario {
	n := []int{4096, 2200, 3073, 4400, 6200}[i%5]
	stride := []int{4, 2, 1, 3, 2}[i%5]
	mode := uint32(0)
	if (i/5)%3 == 2 {
		mode = []uint32{1024, 700}[(i/15)%2]
	}
	var xs, zs []int
	b := make(Batch, n)
	for d := 0; d < n; d++ {
		doc := Doc{}
		terms := []TermOcc{}
		if d%stride == 0 {
			fx := 1 + d%3
			if d%11 == 0 {
				fx = 64 * (1 + d%3) // the freq/hasLocs varint gets a second byte whose first byte has no payload bits
			}
			terms = append(terms, TermOcc{Term: B([]byte("x")), Freq: fx, Locs: []Loc{}})
			xs = append(xs, d)
		}
		if d >= n/2+7 && d%2 == 0 {
			occ := TermOcc{Term: B([]byte("z")), Freq: 1 + (d/2)%4, Locs: []Loc{}}
			if d%6 == 0 {
				occ.Locs = append(occ.Locs, Loc{Field: "", Pos: 1, Start: d, End: d + 1})
			}
			terms = append(terms, occ)
			zs = append(zs, d)
		}
		if len(terms) > 0 {
			l := 0
			for _, t := range terms {
				l += t.Freq
			}
			doc = append(doc, FieldInst{Name: "a", Len: l, Value: Bytes{}, Terms: terms})
		}
		b[d] = doc
	}
	sc := Scenario{Name: fmt.Sprintf("adv_boundary-%d", i), NormKind: "code", Universe: []string{"_id", "a"}, Batches: []Batch{b}, Tags: []string{"adv_boundary"}}
	sc.Ops = append(sc.Ops, Op{Op: "build", Seg: 1, Batch: 0, Mode: mode})
	seg := 1
	if (i/5)%3 == 1 {
		sc.Ops = append(sc.Ops, Op{Op: "persist", Seg: 1, File: 1}, Op{Op: "load", File: 1, Seg: 2, Backing: []string{"mem", "file"}[i%2]})
		seg = 2
	}
	chunkOf := func(card int) int {
		if mode != 0 {
			return int(mode)
		}
		return n / (card/1024 + 1)
	}
	it := 20
	walk := func(term string, ps []int, pl int) {
		cs := chunkOf(len(ps))
		sc.Ops = append(sc.Ops, Op{Op: "pl_open", Seg: seg, Field: "a", Term: B([]byte(term)), Pl: pl})
		nb := 0
		for bnd := cs; bnd < n && nb < 3; bnd += cs {
			last, first := -1, -1
			for _, p := range ps {
				if p < bnd {
					last = p
				} else if first < 0 {
					first = p
				}
			}
			if first < 0 {
				break
			}
			nb++
			for _, delta := range []int{1, 1023, 1024, 1025, 1026, 1500, cs - 3} {
				target := first + delta
				if target >= bnd+cs || target >= n {
					continue
				}
				it++
				sc.Ops = append(sc.Ops, Op{Op: "it_open", Pl: pl, It: it, Freq: true, Norm: true, Locs: delta%2 == 1})
				if last >= 0 {
					if delta == 1025 && last >= 3*stride {
						// arrive by Next calls instead of by Advance
						sc.Ops = append(sc.Ops, Op{Op: "it_adv", It: it, D: last - 2*stride}, Op{Op: "it_next", It: it}, Op{Op: "it_next", It: it})
					} else {
						sc.Ops = append(sc.Ops, Op{Op: "it_adv", It: it, D: last})
					}
				}
				sc.Ops = append(sc.Ops, Op{Op: "it_adv", It: it, D: target}, Op{Op: "it_next", It: it}, Op{Op: "it_next", It: it})
			}
		}
	}
	walk("x", xs, 10)
	walk("z", zs, 11)
	// the first call of an iteration goes into a later chunk
	for _, delta := range []int{0, 1, 1030, 1500} {
		it++
		sc.Ops = append(sc.Ops, Op{Op: "it_open", Pl: 11, It: it, Freq: true, Norm: true, Locs: true},
			Op{Op: "it_adv", It: it, D: zs[0] + delta}, Op{Op: "it_next", It: it}, Op{Op: "it_next", It: it})
	}
	return sc
}

// fault_load: a file loaded through on-demand storage while one read of the Load call fails - every read in turn:
// Load reports the failure, or returns the segment an undisturbed Load returns (C19, C04, C07: doc-value sections)
func genFaultLoad(r *rand.Rand, i int) Scenario {
	cfg := defaultCfg(r)
	cfg.MinDocs, cfg.MaxDocs = 2, 7
	cfg.DvNames = map[string]bool{}
	for _, f := range cfg.Fields {
		if r.Intn(3) != 0 {
			cfg.DvNames[f] = true
		}
	}
	sc := Scenario{Name: fmt.Sprintf("fault_load-%d", i), NormKind: "code", Universe: universeOf(&cfg), Tags: []string{"fault_load"}}
	seq := 0
	b1 := genBatch(r, &cfg, &seq)
	b2 := genBatch(r, &cfg, &seq)
	sc.Batches = []Batch{b1, b2}
	sc.Ops = append(sc.Ops, Op{Op: "watchdog", Watchdog: 4000}, Op{Op: "build", Seg: 1, Batch: 0, Mode: pickMode(r)}, Op{Op: "build", Seg: 2, Batch: 1, Mode: pickMode(r)},
		Op{Op: "persist", Seg: 1, File: 1}, Op{Op: "load", File: 1, Seg: 3, Backing: "mem"}, Op{Op: "observe", Seg: 3, Level: "full"},
		Op{Op: "load_fsweep", File: 1},
		Op{Op: "merge", File: 2, In: []int{1, 2}, Drops: []DropSpec{randDropsNotAll(r, len(b1)), randDropsNotAll(r, len(b2))}, Mode: pickMode(r), Buf: 64},
		Op{Op: "load", File: 2, Seg: 4, Backing: "mem"}, Op{Op: "observe", Seg: 4, Level: "full"},
		Op{Op: "load_fsweep", File: 2})
	return sc
}

// big_dict_merge: merges whose output contains single writes of several kilobytes (a dictionary of 1500+ irregular
// terms, a postings chunk of a term in 3000 documents) AFTER many small ones (varints, offsets): every merged and
// re-persisted file's footer CRC covers its bytes (C11, C04)
func genBigDictMerge(r *rand.Rand, i int) Scenario {
	mk := func(n, nterms int, tag string) Batch {
		b := make(Batch, n)
		seen := map[string]bool{}
		for d := 0; d < n; d++ {
			id := []byte(fmt.Sprintf("%s%04d", tag, d))
			doc := Doc{{Name: "_id", Len: 1, Stored: true, Value: B(id), Terms: []TermOcc{{Term: B(id), Freq: 1, Locs: []Loc{}}}}}
			terms := []TermOcc{{Term: B([]byte("everywhere")), Freq: 1 + d%3, Locs: []Loc{{Field: "", Pos: 1 + d%5, Start: d, End: d + 3}}}}
			if d == 0 {
				for len(terms) < nterms {
					l := 5 + r.Intn(6)
					t := make([]byte, l)
					for k := range t {
						t[k] = byte('a' + r.Intn(24))
					}
					if seen[string(t)] {
						continue
					}
					seen[string(t)] = true
					terms = append(terms, TermOcc{Term: B(t), Freq: 1, Locs: []Loc{}})
				}
			}
			l := 0
			for _, t := range terms {
				l += t.Freq
			}
			doc = append(doc, FieldInst{Name: "body", Len: l, Value: Bytes{}, Terms: terms})
			b[d] = doc
		}
		return b
	}
	n1 := 1500 + r.Intn(1800)
	b1, b2 := mk(n1, 1500+r.Intn(800), "p"), mk(2+r.Intn(5), 30, "q")
	sc := Scenario{Name: fmt.Sprintf("big_dict_merge-%d", i), NormKind: "code", Universe: []string{"_id", "body"}, Batches: []Batch{b1, b2}, Tags: []string{"big_dict_merge"}}
	drops := []DropSpec{{Kind: "set", Docs: []int{1 + r.Intn(n1-1)}}, {Kind: "nil"}}
	sc.Ops = append(sc.Ops, Op{Op: "build", Seg: 1, Batch: 0, Mode: 0}, Op{Op: "build", Seg: 2, Batch: 1, Mode: 0},
		Op{Op: "persist", Seg: 1, File: 1},
		Op{Op: "merge", File: 2, In: []int{1, 2}, Drops: drops, Mode: 0, Buf: []int{64, 4096, 1 << 20}[i%3]},
		Op{Op: "load", File: 2, Seg: 3, Backing: []string{"mem", "file"}[i%2]}, Op{Op: "persist", Seg: 3, File: 3},
		Op{Op: "merge", File: 4, In: []int{3}, Drops: []DropSpec{{Kind: "nil"}}, Mode: 0, Buf: 64},
		Op{Op: "load", File: 4, Seg: 4, Backing: "mem"},
		Op{Op: "contains", Seg: 4, Field: "body", Term: B([]byte("everywhere"))},
		Op{Op: "pl_open", Seg: 4, Field: "body", Term: B([]byte("everywhere")), Pl: 10}, Op{Op: "it_open", Pl: 10, It: 20, Freq: true, Norm: true, Locs: true},
		Op{Op: "it_next", It: 20}, Op{Op: "it_adv", It: 20, D: n1 / 2}, Op{Op: "it_next", It: 20}, Op{Op: "stored", Seg: 4, N: n1 / 3})
	return sc
}

// block_drop: deletions that sit exactly on the first (or last) slot of a 128-document stored block of a merge input
// (documents 127, 128, 129, 256 ...), merged all at once and stepwise (merge without deletions, then the deletions
// translated through DocumentNumbers): the same documents under the same numbers (C17, C02, C06)
func genBlockDrop(r *rand.Rand, i int) Scenario {
	n0 := []int{3, 1, 128, 5}[i%4]
	n1 := []int{130, 257, 300, 129}[(i/4)%4]
	mk := func(n, base int) Batch {
		b := make(Batch, n)
		for d := 0; d < n; d++ {
			id := []byte(fmt.Sprintf("k%04d", base+d))
			b[d] = Doc{{Name: "_id", Len: 1, Stored: true, Value: B(id), Terms: []TermOcc{{Term: B(id), Freq: 1, Locs: []Loc{}}}},
				{Name: "body", Len: 1, Stored: true, Value: B([]byte(fmt.Sprintf("val-%04d", base+d))), Terms: []TermOcc{{Term: B([]byte("t")), Freq: 1, Locs: []Loc{}}}}}
		}
		return b
	}
	sc := Scenario{Name: fmt.Sprintf("block_drop-%d", i), NormKind: "code", Universe: []string{"_id", "body"}, Batches: []Batch{mk(n0, 0), mk(n1, 1000)}, Tags: []string{"block_drop"}}
	cands := [][]int{{128}, {128, 129}, {127, 128}, {256}, {0, 128}, {127}, {128, 256}}
	d1 := []int{}
	for _, x := range cands[(i/2)%len(cands)] {
		if x < n1 {
			d1 = append(d1, x)
		}
	}
	if len(d1) == 0 {
		d1 = []int{128}
	}
	drops := []DropSpec{{Kind: "nil"}, {Kind: "set", Docs: d1}}
	nodrop := []DropSpec{{Kind: "nil"}, {Kind: "nil"}}
	sc.Ops = append(sc.Ops, Op{Op: "build", Seg: 1, Batch: 0, Mode: 0}, Op{Op: "build", Seg: 2, Batch: 1, Mode: 0})
	in := []int{1, 2}
	if i%3 == 2 {
		sc.Ops = append(sc.Ops, Op{Op: "persist", Seg: 2, File: 1}, Op{Op: "load", File: 1, Seg: 3, Backing: []string{"mem", "file"}[i%2]})
		in = []int{1, 3}
	}
	sc.Ops = append(sc.Ops,
		Op{Op: "merge", File: 10, In: in, Drops: drops, Mode: 0, Buf: 4096}, Op{Op: "load", File: 10, Seg: 10, Backing: "mem"},
		// (its destination reads a document of the first block of the big input on every write it receives: the merger
		// is then in the middle of copying a later block of that input)
		Op{Op: "merge", File: 54, In: in, Drops: nodrop, Mode: 0, Buf: 64, Nested: &Op{Op: "stored", Seg: in[1], N: 1 + i%100}}, Op{Op: "load", File: 54, Seg: 54, Backing: "mem"},
		Op{Op: "merge_translated", File: 55, In: []int{54}, Drops: []DropSpec{{Kind: "translate", Bm: 54}}, Mode: 0, Buf: 64, Nested: &Op{Drops: drops}},
		Op{Op: "load", File: 55, Seg: 55, Backing: "mem"})
	total := n0 + n1 - len(d1)
	for d := 0; d < n0+n1; d++ {
		if d%128 >= 120 || d%128 <= 8 || d%16 == 0 {
			sc.Ops = append(sc.Ops, Op{Op: "stored", Seg: 54, N: d})
		}
	}
	for _, seg := range []int{10, 55} {
		for d := 0; d < total+1; d++ {
			if d < 2 || d > total-3 || (d%128 >= 124 || d%128 <= 5) {
				sc.Ops = append(sc.Ops, Op{Op: "stored", Seg: seg, N: d})
			}
		}
	}
	sc.Ops = append(sc.Ops, Op{Op: "same_obs", In: []int{10, 55}})
	return sc
}

// stat_edges: field statistics whose values sit on the varint width steps (127, 128, 129, 16383, 16384, 16385):
// a segment with exactly v documents (so `_id` has v documents and v occurrences) and a field whose single document
// carries v occurrences; read on the built, the loaded and the merged segment and added up across them (C16)
func genStatEdges(r *rand.Rand, i int) Scenario {
	v := []int{128, 127, 129, 16384, 16383, 16385, 256, 255}[i%8]
	b := make(Batch, v)
	for d := 0; d < v; d++ {
		id := []byte(fmt.Sprintf("s%05d", d))
		doc := Doc{{Name: "_id", Len: 1, Stored: true, Value: B(id), Terms: []TermOcc{{Term: B(id), Freq: 1, Locs: []Loc{}}}}}
		if d == v/2 {
			doc = append(doc, FieldInst{Name: "b", Len: v, Value: Bytes{}, Terms: []TermOcc{{Term: B([]byte("t")), Freq: v - 1, Locs: []Loc{}}, {Term: B([]byte("u")), Freq: 1, Locs: []Loc{}}}})
		}
		if d%2 == 0 && d < 256 {
			doc = append(doc, FieldInst{Name: "c", Len: 1, Value: Bytes{}, Terms: []TermOcc{{Term: B([]byte("w")), Freq: 1, Locs: []Loc{}}}})
		}
		b[d] = doc
	}
	sc := Scenario{Name: fmt.Sprintf("stat_edges-%d", i), NormKind: "code", Universe: []string{"_id", "b", "c"}, Batches: []Batch{b}, Tags: []string{"stat_edges"}}
	sc.Ops = append(sc.Ops, Op{Op: "build", Seg: 1, Batch: 0, Mode: 0}, Op{Op: "persist", Seg: 1, File: 1},
		Op{Op: "load", File: 1, Seg: 2, Backing: []string{"mem", "file"}[i%2]},
		Op{Op: "merge", File: 2, In: []int{1}, Drops: []DropSpec{{Kind: "nil"}}, Mode: 0, Buf: 4096}, Op{Op: "load", File: 2, Seg: 3, Backing: "mem"},
		Op{Op: "merge", File: 3, In: []int{2, 3}, Drops: []DropSpec{{Kind: "nil"}, {Kind: "set", Docs: []int{0}}}, Mode: 0, Buf: 4096}, Op{Op: "load", File: 3, Seg: 4, Backing: "mem"})
	for _, seg := range []int{1, 2, 3, 4} {
		for _, f := range []string{"_id", "b", "c", "nosuch"} {
			sc.Ops = append(sc.Ops, Op{Op: "stats", Seg: seg, Field: f})
		}
	}
	sc.Ops = append(sc.Ops, Op{Op: "stats_merge", Seg: 2, Seg2: 3, Field: "_id"}, Op{Op: "stats_merge", Seg: 3, Seg2: 4, Field: "b"})
	return sc
}

// midsize: the range between the small random batches and the few structured big ones - 200..900 documents spread
// over 3..6 segments, 20..60 fields of which a document carries a handful, terms of 100..4000 bytes next to short
// ones, frequencies up to several thousand, stored values of 5..60 KB (runs and incompressible bytes), doc values;
// built in random chunk modes, persisted/loaded, merged with deletions, merged again; observed (C01, C02, C04, C06, C07, C16)
func genMidsize(r *rand.Rand, i int) Scenario {
	nf := 20 + r.Intn(41)
	fields := make([]string, nf)
	dvf := map[string]bool{}
	for k := range fields {
		fields[k] = fmt.Sprintf("m%02d", k)
		if k%5 == 0 {
			dvf[fields[k]] = true
		}
	}
	vocab := map[string][][]byte{}
	for _, f := range fields {
		n := 5 + r.Intn(45)
		for k := 0; k < n; k++ {
			var t []byte
			switch r.Intn(12) {
			case 0: // a long term
				l := 100 + r.Intn(3900)
				t = make([]byte, l)
				for x := range t {
					t[x] = byte('a' + (x*7+k)%23)
				}
			case 1:
				t = []byte{}
			default:
				t = []byte(fmt.Sprintf("%s-%d", f[1:], k))
			}
			if dvf[f] {
				for x := range t {
					if t[x] == 0xff {
						t[x] = 'z'
					}
				}
			}
			dup := false
			for _, o := range vocab[f] {
				dup = dup || string(o) == string(t)
			}
			if !dup {
				vocab[f] = append(vocab[f], t)
			}
		}
	}
	total := 200 + r.Intn(701)
	nseg := 3 + r.Intn(4)
	sizes := make([]int, nseg)
	left := total
	for k := 0; k < nseg-1; k++ {
		sizes[k] = 1 + r.Intn(2*left/(nseg-k))
		if sizes[k] > left-(nseg-1-k) {
			sizes[k] = left - (nseg - 1 - k)
		}
		left -= sizes[k]
	}
	sizes[nseg-1] = left
	sc := Scenario{Name: fmt.Sprintf("midsize-%d", i), NormKind: "code", Universe: append([]string{"_id"}, fields...), Tags: []string{"midsize"}}
	id := 0
	for sgi := 0; sgi < nseg; sgi++ {
		b := make(Batch, sizes[sgi])
		for d := range b {
			ids := []byte(fmt.Sprintf("z%05d", id))
			id++
			doc := Doc{{Name: "_id", Len: 1, Stored: true, Value: B(ids), Terms: []TermOcc{{Term: B(ids), Freq: 1, Locs: []Loc{}}}}}
			used := map[string]bool{}
			for k := 0; k < 2+r.Intn(4); k++ {
				f := fields[r.Intn(nf)]
				if used[f] {
					continue
				}
				used[f] = true
				fi := FieldInst{Name: f, DV: dvf[f], Value: Bytes{}, Terms: []TermOcc{}}
				seen := map[int]bool{}
				for x := 0; x < 1+r.Intn(4); x++ {
					ti := r.Intn(len(vocab[f]))
					if seen[ti] {
						continue
					}
					seen[ti] = true
					fr := 1 + r.Intn(3)
					if r.Intn(15) == 0 {
						fr = 64 * (1 + r.Intn(80))
					}
					occ := TermOcc{Term: B(vocab[f][ti]), Freq: fr, Locs: []Loc{}}
					for l := 0; l < r.Intn(3) && l < fr; l++ {
						occ.Locs = append(occ.Locs, Loc{Field: "", Pos: 1 + r.Intn(5000), Start: r.Intn(70000), End: 70000 + r.Intn(100)})
					}
					fi.Terms = append(fi.Terms, occ)
					fi.Len += fr
				}
				if r.Intn(10) == 0 {
					fi.Stored = true
					n := 5000 + r.Intn(55000)
					if r.Intn(2) == 0 {
						fi.Value = PrngBlob(100000*i+id, n)
					} else {
						v := make(Bytes, n)
						for x := range v {
							v[x] = 'k' + id%7
						}
						fi.Value = v
					}
				} else if r.Intn(4) == 0 {
					fi.Stored = true
					fi.Value = B([]byte(fmt.Sprintf("v-%d-%s", id, f)))
				}
				doc = append(doc, fi)
			}
			b[d] = doc
		}
		sc.Batches = append(sc.Batches, b)
	}
	in := []int{}
	drops := []DropSpec{}
	for sgi := 0; sgi < nseg; sgi++ {
		sc.Ops = append(sc.Ops, Op{Op: "build", Seg: sgi + 1, Batch: sgi, Mode: pickMode(r)})
		h := sgi + 1
		if sgi%2 == 1 {
			sc.Ops = append(sc.Ops, Op{Op: "persist", Seg: h, File: 20 + sgi}, Op{Op: "load", File: 20 + sgi, Seg: 20 + sgi, Backing: []string{"mem", "file"}[sgi%4/2]})
			h = 20 + sgi
		}
		in = append(in, h)
		drops = append(drops, randDrops(r, sizes[sgi]))
	}
	sc.Ops = append(sc.Ops, Op{Op: "merge", File: 40, In: in, Drops: drops, Mode: 0, Buf: []int{64, 4096, 0}[i%3]},
		Op{Op: "load", File: 40, Seg: 40, Backing: []string{"mem", "file"}[i%2]},
		Op{Op: "observe", Seg: 40, Level: "light"},
		Op{Op: "merge", File: 41, In: []int{40, in[0]}, Drops: []DropSpec{{Kind: "nil"}, {Kind: "nil"}}, Mode: pickMode(r), Buf: 4096},
		Op{Op: "load", File: 41, Seg: 41, Backing: "mem"}, Op{Op: "observe", Seg: 41, Level: "light"},
		Op{Op: "observe", Seg: in[len(in)-1], Level: "full"})
	return sc
}

// bitmap_edges: terms whose serialised roaring bitmaps have exact sizes around 4096 bytes (an array container of
// 2039/2040/2041 scattered documents: 16 + 2n bytes) and around the array/bitmap container switch (4095/4096/4097
// documents in one 65 536-block); a field occurring twice per document so that a term has twice as many occurrences
// as documents (600 documents, 1200 occurrences: one chunk for the reader); dictionaries enumerated on the built,
// the loaded and a merged segment (C08, C01, C05)
func genBitmapEdges(r *rand.Rand, i int) Scenario {
	cards := [][3]int{{2040, 2039, 2041}, {4096, 4095, 4097}, {2040, 4096, 1021}}[i%3]
	n := 8400
	if i%2 == 1 {
		n = 9000
	}
	b := make(Batch, n)
	for d := 0; d < n; d++ {
		terms := []TermOcc{}
		for k, c := range cards {
			// scattered (non-adjacent) members: every second document from a term-specific start
			if d%2 == k%2 && d/2 < c {
				terms = append(terms, TermOcc{Term: B([]byte(fmt.Sprintf("e%d", k))), Freq: 1 + d%2, Locs: []Loc{}})
			}
		}
		doc := Doc{}
		if len(terms) > 0 {
			l := 0
			for _, t := range terms {
				l += t.Freq
			}
			doc = append(doc, FieldInst{Name: "a", Len: l, Value: Bytes{}, Terms: terms})
		}
		if d%14 == 0 {
			// the same field name twice in one document, the same term in both instances (spread over the whole segment)
			doc = append(doc, FieldInst{Name: "rep", Len: 1, Value: Bytes{}, Terms: []TermOcc{{Term: B([]byte("x")), Freq: 1, Locs: []Loc{}}}},
				FieldInst{Name: "rep", Len: 2, Value: Bytes{}, Terms: []TermOcc{{Term: B([]byte("x")), Freq: 2, Locs: []Loc{{Field: "", Pos: 1, Start: d, End: d + 1}}}}})
		}
		b[d] = doc
	}
	sc := Scenario{Name: fmt.Sprintf("bitmap_edges-%d", i), NormKind: "code", Universe: []string{"_id", "a", "rep"}, Batches: []Batch{b}, Tags: []string{"bitmap_edges"}}
	sc.Ops = append(sc.Ops, Op{Op: "build", Seg: 1, Batch: 0, Mode: 0}, Op{Op: "persist", Seg: 1, File: 1},
		Op{Op: "load", File: 1, Seg: 2, Backing: []string{"mem", "file"}[i%2]},
		Op{Op: "merge", File: 2, In: []int{2}, Drops: []DropSpec{{Kind: "set", Docs: []int{n - 1}}}, Mode: 0, Buf: 4096}, Op{Op: "load", File: 2, Seg: 3, Backing: "mem"})
	for _, seg := range []int{1, 2, 3} {
		sc.Ops = append(sc.Ops, Op{Op: "dict", Seg: seg, Field: "a"}, Op{Op: "dict", Seg: seg, Field: "rep"})
		for k := range cards {
			pl, it := 10*seg+k, 100+10*seg+k
			sc.Ops = append(sc.Ops, Op{Op: "pl_open", Seg: seg, Field: "a", Term: B([]byte(fmt.Sprintf("e%d", k))), Pl: pl}, Op{Op: "pl_count", Pl: pl},
				Op{Op: "it_open", Pl: pl, It: it, Freq: true, Norm: true, Locs: true}, Op{Op: "it_next", It: it}, Op{Op: "it_adv", It: it, D: 3000}, Op{Op: "it_next", It: it})
		}
		pl, it := 10*seg+5, 100+10*seg+5
		sc.Ops = append(sc.Ops, Op{Op: "pl_open", Seg: seg, Field: "rep", Term: B([]byte("x")), Pl: pl}, Op{Op: "it_open", Pl: pl, It: it, Freq: true, Norm: true, Locs: true},
			Op{Op: "it_next", It: it}, Op{Op: "it_adv", It: it, D: n/2 - 30}, Op{Op: "it_next", It: it}, Op{Op: "it_next", It: it}, Op{Op: "it_next", It: it}, Op{Op: "it_next", It: it},
			Op{Op: "it_adv", It: it, D: n - 100}, Op{Op: "it_next", It: it}, Op{Op: "it_next", It: it})
	}
	return sc
}

// conc_big: goroutines that compress and decompress LARGE chunks at the same time - builds whose stored chunk holds
// more than a megabyte of incompressible bytes, readers of a stored block that is several hundred kilobytes when
// compressed - against the bytes of cold sequential builds and the documents' own values (C14, C09)
func genConcBig(r *rand.Rand, i int) Scenario {
	mk := func(n, size, seed int, tag string) Batch {
		b := make(Batch, n)
		for d := 0; d < n; d++ {
			id := []byte(fmt.Sprintf("%s%02d", tag, d))
			b[d] = Doc{{Name: "_id", Len: 1, Stored: true, Value: B(id), Terms: []TermOcc{{Term: B(id), Freq: 1, Locs: []Loc{}}}},
				{Name: "blob", Len: 1, Stored: true, Value: PrngBlob(seed+d, size+d*100), Terms: []TermOcc{{Term: B([]byte("t")), Freq: 1, Locs: []Loc{}}}}}
		}
		return b
	}
	a := mk(12, 40000, 7000+100*i, "a")
	bb := mk(3, 700<<10, 8000+100*i, "b")
	cc := mk(2, 600<<10, 9000+100*i, "c")
	sc := Scenario{Name: fmt.Sprintf("conc_big-%d", i), NormKind: "code", Universe: []string{"_id", "blob"}, Batches: []Batch{a, bb, cc}, Tags: []string{"conc_big"}}
	sc.Ops = append(sc.Ops, Op{Op: "watchdog", Watchdog: 20000}, Op{Op: "build", Seg: 1, Batch: 0, Mode: 0, Cold: true}, Op{Op: "build", Seg: 2, Batch: 1, Mode: 0, Cold: true},
		Op{Op: "build", Seg: 3, Batch: 2, Mode: 0, Cold: true},
		Op{Op: "persist", Seg: 1, File: 1}, Op{Op: "load", File: 1, Seg: 4, Backing: []string{"mem", "file"}[i%2]},
		Op{Op: "persist", Seg: 2, File: 2}, Op{Op: "load", File: 2, Seg: 5, Backing: "mem"})
	visits := func(seg, n int) []Op {
		ops := []Op{}
		for k := 0; k < 10; k++ {
			ops = append(ops, Op{Op: "stored", Seg: seg, N: r.Intn(n)})
		}
		return ops
	}
	groups := [][]Op{
		{{Op: "build", Seg: 101, Batch: 1, Mode: 0}, {Op: "build", Seg: 102, Batch: 1, Mode: 0}, {Op: "build", Seg: 103, Batch: 2, Mode: 0}},
		{{Op: "build", Seg: 111, Batch: 2, Mode: 0}, {Op: "build", Seg: 112, Batch: 1, Mode: 0}, {Op: "build", Seg: 113, Batch: 2, Mode: 0}},
		{{Op: "build", Seg: 121, Batch: 1, Mode: 0}, {Op: "build", Seg: 122, Batch: 2, Mode: 0}},
		visits(4, 12), visits(1, 12), visits(5, 3), visits(4, 12),
	}
	sc.Ops = append(sc.Ops, Op{Op: "par", Groups: groups})
	return sc
}

// wide_tail: a merge whose unified field list has more than 1024 (2048) fields - the per-field tables at the end
// of the file (doc-value locations, field index) are tens of KiB long - with the channel closed / the destination
// failing at offsets spread over that tail (C11, C12)
func genWideTail(r *rand.Rand, i int) Scenario {
	nf := []int{1030, 1100, 1500, 2060}[i%4] + r.Intn(40)
	names := make([]string, nf)
	for k := range names {
		names[k] = fmt.Sprintf("w%04d", k)
	}
	lo, hi := nf/3+r.Intn(nf/3), nf/2+r.Intn(nf/3) // segment 1: names[:hi], segment 2: names[lo:]
	if lo > hi {
		lo, hi = hi, lo
	}
	mk := func(pfx string, fs []string) Batch {
		nd := 2 + r.Intn(3)
		b := make(Batch, nd)
		for d := 0; d < nd; d++ {
			id := []byte(fmt.Sprintf("%s%d", pfx, d))
			b[d] = Doc{{Name: "_id", Len: 1, Stored: true, Value: B(id), Terms: []TermOcc{{Term: B(id), Freq: 1, Locs: []Loc{}}}}}
		}
		for k, f := range fs {
			d := k % nd
			fi := FieldInst{Name: f, Len: 1, DV: k%3 != 0, Value: Bytes{}, Terms: []TermOcc{{Term: B(termVocab[k%4]), Freq: 1, Locs: []Loc{}}}}
			if k%11 == 0 {
				fi.Terms = []TermOcc{} // a field without terms
				fi.Len = 0
				fi.DV = false
			}
			b[d] = append(b[d], fi)
		}
		return b
	}
	b1, b2 := mk("a", names[:hi]), mk("b", names[lo:])
	sc := Scenario{Name: fmt.Sprintf("wide_tail-%d", i), NormKind: "code", Universe: []string{"_id", names[0], names[lo], names[nf-1]},
		Batches: []Batch{b1, b2}, Tags: []string{"wide_tail"}}
	sc.Ops = append(sc.Ops, Op{Op: "build", Seg: 1, Batch: 0, Mode: 0}, Op{Op: "build", Seg: 2, Batch: 1, Mode: 0},
		Op{Op: "wfaults", In: []int{1, 2}, Drops: []DropSpec{{Kind: "nil"}, {Kind: "set", Docs: []int{0}}}, Bufs: []int{[]int{1, 16, 64}[r.Intn(3)]},
			Tail: 30 * nf * 2, Stop: 400 + r.Intn(300)},
		Op{Op: "merge", File: 1, In: []int{1, 2}, Drops: []DropSpec{{Kind: "nil"}, {Kind: "set", Docs: []int{0}}}, Mode: 0, Buf: 64},
		Op{Op: "load", File: 1, Seg: 3, Backing: "mem"}, Op{Op: "observe", Seg: 3, Level: "light"})
	return sc
}

// aligned: a segment whose data section is an exact multiple of 1 MiB (64 KiB, 2 MiB) - the length of an
// incompressible stored value and of a field name are tuned with the builder of the tree under check until the size
// lines up - built, persisted, loaded from memory and from a file, persisted again and merged (C04, C11)
func genAligned(r *rand.Rand, i int) Scenario {
	block := []int{1 << 20, 1 << 20, 1 << 16, 2 << 20}[i%4]
	size, pad := block*(1+i%3)-20000+r.Intn(10000), 140
	universe := []string{"_id", "blob"}
	mk := func() Batch {
		return Batch{
			Doc{{Name: "_id", Len: 1, Stored: true, Value: B([]byte("a")), Terms: []TermOcc{{Term: B([]byte("a")), Freq: 1, Locs: []Loc{}}}},
				{Name: "blob", Len: 1, Stored: true, Value: PrngBlob(7000+i, size), Terms: []TermOcc{{Term: B([]byte("x")), Freq: 1, Locs: []Loc{}}}},
				{Name: "p" + strings.Repeat("q", pad-1), Len: 1, Value: Bytes{}, Terms: []TermOcc{{Term: B([]byte("y")), Freq: 1, Locs: []Loc{}}}}},
			Doc{{Name: "_id", Len: 1, Stored: true, Value: B([]byte("b")), Terms: []TermOcc{{Term: B([]byte("b")), Freq: 1, Locs: []Loc{}}}}}}
	}
	// the length of the file the tree's own builder and writer produce for the batch (-1: they failed)
	measure := func(b Batch) (n int) {
		defer func() {
			if recover() != nil {
				n = -1
			}
		}()
		seg, _, err := implCur.New(b.Norm().Documents(), normFunc("code", universe))
		if err != nil {
			return -1
		}
		var buf bytes.Buffer
		if _, err := seg.WriteTo(&buf, nil); err != nil {
			return -1
		}
		return buf.Len() - 44
	}
	for iter := 0; iter < 16; iter++ {
		d := measure(mk())
		if d < 0 {
			break
		}
		rest := (block - d%block) % block
		if rest == 0 {
			break
		}
		if rest > 200 {
			size += rest - 100 // incompressible: a byte more of value is a byte more of file (give or take a block header)
		} else {
			pad += rest // field names are written verbatim
		}
	}
	b := mk()
	sc := Scenario{Name: fmt.Sprintf("aligned-%d", i), NormKind: "code", Universe: universe, Batches: []Batch{b}, Tags: []string{"aligned"}}
	sc.Ops = append(sc.Ops, Op{Op: "build", Seg: 1, Batch: 0, Mode: 0}, Op{Op: "persist", Seg: 1, File: 1},
		Op{Op: "load", File: 1, Seg: 2, Backing: "mem"}, Op{Op: "load", File: 1, Seg: 3, Backing: "file"},
		Op{Op: "persist", Seg: 2, File: 2}, Op{Op: "persist", Seg: 3, File: 3},
		Op{Op: "load", File: 2, Seg: 4, Backing: "mem"}, Op{Op: "load", File: 3, Seg: 5, Backing: "mem"},
		Op{Op: "merge", File: 4, In: []int{1, 3}, Drops: []DropSpec{{Kind: "nil"}, {Kind: "set", Docs: []int{1}}}, Mode: 0, Buf: 4096},
		Op{Op: "load", File: 4, Seg: 6, Backing: "mem"}, Op{Op: "layout", File: 1},
		Op{Op: "wfaults", Seg: 2, Stop: block/3 + r.Intn(1000)}, Op{Op: "wfaults", Seg: 3, Stop: block/3 + r.Intn(1000)})
	for _, seg := range []int{1, 2, 3, 4, 5, 6} {
		sc.Ops = append(sc.Ops, Op{Op: "observe", Seg: seg, Level: "light"}, Op{Op: "stored", Seg: seg, N: 0}, Op{Op: "stored", Seg: seg, N: 1})
	}
	return sc
}
