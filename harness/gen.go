package main

// Seeded random generators of scenarios (the "rapid drivers" of DESIGN.md, written
// with math/rand so that a seed reproduces a scenario file bit for bit).
// Generators implement the input contract of the properties' quantifiers and
// nothing outside it is ever produced.

import (
	"fmt"
	"math/rand"
	"sort"
)

type GenCfg struct {
	MinDocs, MaxDocs int
	Fields           []string        // candidate field names besides _id
	DvNames          map[string]bool // fields indexed with doc values (consistent by name)
	StatsMode        bool            // len == sum of freqs (C16 contract)
	PRepeat          float64         // probability of repeating a field name inside a document
	PEmptyDoc        float64
	PNoID            float64
	PLocs            float64
	PStored          float64
	BigValues        bool
	TermsPerInst     int
}

var termVocab = [][]byte{
	[]byte("x"), []byte("y"), []byte("xy"), []byte("xyz"), []byte(""), {0}, {0, 1}, []byte("z"),
	{0xff}, {'a', 0xff, 'b'}, []byte("x\x00"), {0xfe}, []byte("w"), []byte("ww"), []byte("v"),
}

func hasFF(b []byte) bool {
	for _, x := range b {
		if x == 0xff {
			return true
		}
	}
	return false
}

func defaultCfg(r *rand.Rand) GenCfg {
	all := []string{"a", "b", "c", "B", "aa", "_all"}
	r.Shuffle(len(all), func(i, j int) { all[i], all[j] = all[j], all[i] })
	n := 1 + r.Intn(4)
	fields := all[:n]
	dv := map[string]bool{}
	for _, f := range fields {
		if r.Intn(3) == 0 {
			dv[f] = true
		}
	}
	if r.Intn(4) == 0 {
		dv["_id"] = true
	}
	return GenCfg{MinDocs: 0, MaxDocs: 6, Fields: fields, DvNames: dv, StatsMode: r.Intn(2) == 0,
		PRepeat: 0.25, PEmptyDoc: 0.1, PNoID: 0.15, PLocs: 0.5, PStored: 0.5, TermsPerInst: 3}
}

func genValue(r *rand.Rand, big bool) Bytes {
	switch r.Intn(8) {
	case 6, 7:
		return B([]byte("same-long-value")) // repeated instances often carry identical adjacent values
	case 0:
		return Bytes{}
	case 1:
		return B([]byte("v"))
	case 2:
		if big {
			n := 100 + r.Intn(300)
			b := make([]byte, n)
			for i := range b {
				b[i] = byte(r.Intn(256))
			}
			return B(b)
		}
		return B([]byte("value"))
	case 3:
		return B([]byte{0, 0xff, 0})
	default:
		return B([]byte(fmt.Sprintf("val-%d", r.Intn(1000))))
	}
}

func genInst(r *rand.Rand, cfg *GenCfg, name string, docNum int, seqNo *int) FieldInst {
	fi := FieldInst{Name: name, Value: Bytes{}, Terms: []TermOcc{}}
	if r.Float64() < cfg.PStored {
		fi.Stored = true
		fi.Value = genValue(r, cfg.BigValues)
	}
	if cfg.DvNames[name] {
		fi.DV = r.Intn(4) != 0 // the batch-level fix-up guarantees at least one true
	}
	if name == "_id" {
		id := []byte(fmt.Sprintf("d%d", *seqNo))
		*seqNo++
		idocc := TermOcc{Term: B(id), Freq: 1, Locs: []Loc{}}
		if r.Intn(6) == 0 {
			idocc.Locs = append(idocc.Locs, Loc{Field: "", Pos: 0, Start: 0, End: 0}) // field id 0, all components zero
		}
		fi.Terms = append(fi.Terms, idocc)
		fi.Stored = true
		fi.Value = B(id)
	} else {
		nt := r.Intn(cfg.TermsPerInst + 1)
		used := map[string]bool{}
		for k := 0; k < nt; k++ {
			t := termVocab[r.Intn(len(termVocab))]
			if used[string(t)] || (cfg.DvNames[name] && hasFF(t)) {
				continue
			}
			used[string(t)] = true
			occ := TermOcc{Term: B(t), Freq: 1 + r.Intn(3), Locs: []Loc{}}
			if r.Float64() < cfg.PLocs {
				nl := r.Intn(occ.Freq + 1)
				for j := 0; j < nl; j++ {
					// small values including zeros (a zero needs one varint byte too), and large ones
					start := []int{0, 0, 1, 5, r.Intn(40), 300}[r.Intn(6)]
					occ.Locs = append(occ.Locs, Loc{Field: "", Pos: []int{0, 0, 1, 2, 1 + r.Intn(5), 200}[r.Intn(6)], Start: start,
						End: start + []int{0, 0, 1, 3, 40 + r.Intn(200), 70000}[r.Intn(6)]})
				}
			}
			fi.Terms = append(fi.Terms, occ)
		}
	}
	sum := 0
	for _, t := range fi.Terms {
		sum += t.Freq
	}
	fi.Len = sum
	if !cfg.StatsMode {
		fi.Len += r.Intn(3)
		if r.Intn(8) == 0 {
			fi.Len = 0 // the length a field reports is the caller's: zero although it carries terms (norm of length 0)
		}
	}
	return fi
}

func genBatch(r *rand.Rand, cfg *GenCfg, seqNo *int) Batch {
	n := cfg.MinDocs
	if cfg.MaxDocs > cfg.MinDocs {
		n += r.Intn(cfg.MaxDocs - cfg.MinDocs + 1)
	}
	b := make(Batch, n)
	for d := 0; d < n; d++ {
		doc := Doc{}
		if r.Float64() < cfg.PEmptyDoc {
			b[d] = doc
			continue
		}
		if r.Float64() >= cfg.PNoID {
			doc = append(doc, genInst(r, cfg, "_id", d, seqNo))
		}
		// fields in random (not sorted) first-seen order
		perm := r.Perm(len(cfg.Fields))
		for _, fi := range perm {
			if r.Intn(3) == 0 {
				continue
			}
			name := cfg.Fields[fi]
			doc = append(doc, genInst(r, cfg, name, d, seqNo))
			for r.Float64() < cfg.PRepeat {
				doc = append(doc, genInst(r, cfg, name, d, seqNo))
			}
		}
		if r.Intn(3) == 0 {
			r.Shuffle(len(doc), func(i, j int) { doc[i], doc[j] = doc[j], doc[i] })
		}
		b[d] = doc
	}
	fixBatch(r, cfg, b)
	return b
}

// fixBatch establishes the batch-level parts of the contract: composite locations
// name fields of the same batch; every doc-value field present has a flagged instance.
func fixBatch(r *rand.Rand, cfg *GenCfg, b Batch) {
	names := b.FieldNames()
	if len(names) > 0 {
		for d := range b {
			for i := range b[d] {
				for k := range b[d][i].Terms {
					for j := range b[d][i].Terms[k].Locs {
						if r.Intn(4) == 0 {
							b[d][i].Terms[k].Locs[j].Field = names[r.Intn(len(names))]
						}
					}
				}
			}
		}
	}
	seen := map[string]bool{}
	for d := range b {
		for i := range b[d] {
			if b[d][i].DV {
				seen[b[d][i].Name] = true
			}
		}
	}
	for d := range b {
		for i := range b[d] {
			n := b[d][i].Name
			if cfg.DvNames[n] && !seen[n] {
				b[d][i].DV = true
				seen[n] = true
			}
		}
	}
}

var fixedModes = []uint32{1, 2, 3, 5, 1024, 0, 0, 1025}

func pickMode(r *rand.Rand) uint32 { return fixedModes[r.Intn(len(fixedModes))] }

func universeOf(cfg *GenCfg) []string {
	u := append([]string{"_id", "nosuchfield"}, cfg.Fields...)
	sort.Strings(u)
	return u
}

func randDrops(r *rand.Rand, n int) DropSpec {
	switch r.Intn(6) {
	case 0:
		return DropSpec{Kind: "nil"}
	case 1:
		return DropSpec{Kind: "set", Docs: []int{}}
	case 2:
		all := make([]int, n)
		for i := range all {
			all[i] = i
		}
		return DropSpec{Kind: "set", Docs: all}
	default:
		docs := []int{}
		for i := 0; i < n; i++ {
			if r.Intn(3) == 0 {
				docs = append(docs, i)
			}
		}
		return DropSpec{Kind: "set", Docs: docs}
	}
}

// ---------------------------------------------------------------------------
// families

// build_obs: one batch, one chunk mode, full observation (C01, C06, C07, C08, C16, C18)
func genBuildObs(r *rand.Rand, i int) Scenario {
	cfg := defaultCfg(r)
	seq := 0
	b := genBatch(r, &cfg, &seq)
	sc := Scenario{Name: fmt.Sprintf("build_obs-%d", i), NormKind: "code", Universe: universeOf(&cfg), Batches: []Batch{b}}
	sc.Ops = []Op{{Op: "build", Seg: 1, Batch: 0, Mode: pickMode(r)}, {Op: "observe", Seg: 1, Level: "full"}}
	return sc
}

// roundtrip: build, persist, load (mem and file), observe, persist again (C04, C11)
// wrapOf: half of the persists and merges write into a caller-owned *bufio.Writer (sizes on both sides of bufio's
// own 4096 default: bufio.NewWriter(w) returns w itself when it is already big enough) that still holds bytes of
// the caller; the count returned must be ice's own bytes only and the bytes must be the same (C04, C11, C12)
func wrapOf(r *rand.Rand, o Op) Op {
	if r.Intn(2) == 0 {
		return o
	}
	o.Wrap = []int{16, 100, 4096, 4097, 8192, 65536}[r.Intn(6)]
	o.Pre = []int{0, 1, 7, 300, o.Wrap - 1}[r.Intn(5)]
	if o.Pre >= o.Wrap {
		o.Pre = o.Wrap - 1
	}
	return o
}

func genRoundtrip(r *rand.Rand, i int) Scenario {
	cfg := defaultCfg(r)
	seq := 0
	b := genBatch(r, &cfg, &seq)
	sc := Scenario{Name: fmt.Sprintf("roundtrip-%d", i), NormKind: "code", Universe: universeOf(&cfg), Batches: []Batch{b}}
	sc.Ops = []Op{
		{Op: "build", Seg: 1, Batch: 0, Mode: pickMode(r)},
		{Op: "persist_fail", Seg: 1, N: 1 + r.Intn(300)}, // a failed write must not influence later ones
		wrapOf(r, Op{Op: "persist", Seg: 1, File: 1}),
		{Op: "load", File: 1, Seg: 2, Backing: "mem"},
		{Op: "load", File: 1, Seg: 3, Backing: "file"},
		{Op: "persist_fail", Seg: 3, N: 1 + r.Intn(300)},
		{Op: "observe", Seg: 2, Level: "full"},
		{Op: "observe", Seg: 3, Level: "full"},
		wrapOf(r, Op{Op: "persist", Seg: 2, File: 2}),
		wrapOf(r, Op{Op: "persist", Seg: 3, File: 3}),
		{Op: "load", File: 2, Seg: 4, Backing: "mem"},
		wrapOf(r, Op{Op: "persist", Seg: 4, File: 4}),
		{Op: "observe", Seg: 4, Level: "light"},
	}
	return sc
}

// merge_obs: k inputs (built, loaded or themselves merged), random drops, output mode (C02, C03, C04, C11, C16)
func genMergeObs(r *rand.Rand, i int) Scenario {
	cfg := defaultCfg(r)
	cfg.MaxDocs = 5
	sc := Scenario{Name: fmt.Sprintf("merge_obs-%d", i), NormKind: "code", Universe: universeOf(&cfg)}
	seq := 0
	k := 1 + r.Intn(3)
	segH, fileH := 0, 0
	inputs := []int{}
	counts := map[int]int{}
	sameFields := r.Intn(2) == 0
	for j := 0; j < k; j++ {
		c := cfg
		if !sameFields && len(cfg.Fields) > 1 {
			// differing field sets: forces the re-encode path and the location field-id remap
			c.Fields = append([]string{}, cfg.Fields[r.Intn(len(cfg.Fields)):]...)
		}
		b := genBatch(r, &c, &seq)
		sc.Batches = append(sc.Batches, b)
		segH++
		sc.Ops = append(sc.Ops, Op{Op: "build", Seg: segH, Batch: len(sc.Batches) - 1, Mode: pickMode(r)})
		h := segH
		counts[h] = len(b)
		if r.Intn(3) == 0 {
			// use a previously merged segment as input (1-hit encoded terms)
			fileH++
			d := randDrops(r, len(b))
			if d.Kind == "set" && len(d.Docs) == len(b) && len(b) > 0 {
				d = DropSpec{Kind: "nil"}
			}
			sc.Ops = append(sc.Ops, Op{Op: "merge", File: fileH, In: []int{h}, Drops: []DropSpec{d}, Mode: pickMode(r), Buf: 1 + r.Intn(200)})
			segH++
			back := "mem"
			if r.Intn(3) == 0 {
				back = "file"
			}
			sc.Ops = append(sc.Ops, Op{Op: "load", File: fileH, Seg: segH, Backing: back})
			nd := len(b)
			if d.Kind == "set" {
				nd -= len(d.Docs)
			}
			counts[segH] = nd
			h = segH
		}
		inputs = append(inputs, h)
	}
	if i%5 == 4 {
		// the same segment object listed twice (with deletions of its own each time)
		inputs = append(inputs, inputs[r.Intn(len(inputs))])
		if i%10 == 9 {
			inputs[len(inputs)-1], inputs[0] = inputs[0], inputs[len(inputs)-1]
		}
	}
	drops := make([]DropSpec, len(inputs))
	for j, h := range inputs {
		drops[j] = randDrops(r, counts[h])
	}
	fileH++
	sc.Ops = append(sc.Ops, wrapOf(r, Op{Op: "merge", File: fileH, In: inputs, Drops: drops, Mode: pickMode(r), Buf: []int{1, 16, 64, 4096, 0}[r.Intn(5)]}))
	segH++
	back := "mem"
	if r.Intn(2) == 0 {
		back = "file"
	}
	sc.Ops = append(sc.Ops, Op{Op: "load", File: fileH, Seg: segH, Backing: back})
	sc.Ops = append(sc.Ops, Op{Op: "observe", Seg: segH, Level: "full"})
	sc.Ops = append(sc.Ops, Op{Op: "persist", Seg: segH, File: fileH + 1})
	if len(inputs) >= 2 {
		sc.Ops = append(sc.Ops, Op{Op: "stats_merge", Seg: inputs[0], Seg2: inputs[1], Field: pickField(r, &cfg)})
	}
	return sc
}

func pickField(r *rand.Rand, cfg *GenCfg) string {
	u := universeOf(cfg)
	return u[r.Intn(len(u))]
}

var families = map[string]func(*rand.Rand, int) Scenario{
	"build_obs": genBuildObs,
	"roundtrip": genRoundtrip,
	"merge_obs": genMergeObs,
}

func genFamily(name string, seed int64, n int) []Scenario {
	f, ok := families[name]
	if !ok {
		fatal(fmt.Errorf("unknown family %q", name))
	}
	r := rand.New(rand.NewSource(seed))
	out := make([]Scenario, n)
	for i := 0; i < n; i++ {
		out[i] = f(r, i)
		enforceContract(&out[i])
	}
	return out
}

// enforceContract repairs the batch-level parts of the input contract that a generator may have missed
// (DESIGN section 5): a location names "" or a field of the same batch; frequency >= 1 and >= #locations.
func enforceContract(sc *Scenario) {
	for _, b := range sc.Batches {
		present := map[string]bool{"": true}
		for _, f := range b.FieldNames() {
			present[f] = true
		}
		for d := range b {
			for k := range b[d] {
				for t := range b[d][k].Terms {
					o := &b[d][k].Terms[t]
					for j := range o.Locs {
						if !present[o.Locs[j].Field] {
							o.Locs[j].Field = ""
						}
					}
					if o.Freq < len(o.Locs) || o.Freq < 1 {
						delta := len(o.Locs) - o.Freq
						if o.Freq+delta < 1 {
							delta = 1 - o.Freq
						}
						o.Freq += delta
						b[d][k].Len += delta
					}
				}
			}
		}
	}
}
