package main

// An independent walk of the bytes of a segment file (no ice code involved): footer,
// stored-section trailer, fields index and doc-value index. The numbers it reports are
// judged by the Layout operators of the specification (C10).

import (
	"encoding/binary"
	"fmt"
)

func (e *Env) doLayout(op *Op) {
	data, ok := e.files[op.File]
	if !ok {
		e.emit(M{"ev": "skip", "op": "layout"})
		return
	}
	res := layoutOf(data)
	e.emit(M{"ev": "layout", "file": op.File, "res": res})
}

func layoutOf(data []byte) (res M) {
	defer func() {
		if r := recover(); r != nil {
			res = M{"kind": "unparsable", "msg": trunc(fmt.Sprint(r), 200)}
		}
	}()
	if len(data) < 44 {
		return M{"kind": "unparsable", "msg": "short"}
	}
	f := data[len(data)-44:]
	numDocs := binary.BigEndian.Uint64(f[0:8])
	stored := binary.BigEndian.Uint64(f[8:16])
	fieldsIdx := binary.BigEndian.Uint64(f[16:24])
	dv := binary.BigEndian.Uint64(f[24:32])
	body := data[:len(data)-44]
	res = M{"kind": "ok", "numDocs": clampInt(numDocs),
		"chunkMode": clampInt(uint64(binary.BigEndian.Uint32(f[32:36]))),
		"version":   clampInt(uint64(binary.BigEndian.Uint32(f[36:40])))}
	// stored section trailer: ... offsets(varints) | uint32 offsetsLen | uint32 chunkNum | stored index (8 bytes per doc)
	chunkNum := binary.BigEndian.Uint32(body[stored-4 : stored])
	offLen := binary.BigEndian.Uint32(body[stored-8 : stored-4])
	res["storedChunkNum"] = clampInt(uint64(chunkNum))
	offs := body[stored-8-uint64(offLen) : stored-8]
	var offsets []uint64
	for len(offs) > 0 {
		v, n := binary.Uvarint(offs)
		if n <= 0 {
			panic("bad chunk offset varint")
		}
		offsets = append(offsets, v)
		offs = offs[n:]
	}
	res["storedOffsets"] = len(offsets)
	magic := true
	nonEmpty := 0
	for i := 0; i+1 < len(offsets); i++ {
		if offsets[i+1] > offsets[i] {
			nonEmpty++
			b := body[offsets[i]:offsets[i+1]]
			if len(b) < 4 || b[0] != 0x28 || b[1] != 0xb5 || b[2] != 0x2f || b[3] != 0xfd {
				magic = false
			}
		}
	}
	res["storedBlocks"] = nonEmpty
	res["zstdMagic"] = magic
	res["storedIndexLen"] = clampInt(uint64(len(body)) - stored)
	// the stored index runs up to the next section; its first numDocs entries are 8 bytes each
	nfields := (uint64(len(body)) - fieldsIdx) / 8
	res["nfields"] = clampInt(nfields)
	dvChunks := []int{}
	if dv != ^uint64(0) && numDocs > 0 { // like the loader: no doc values in an empty segment
		p := body[dv:]
		for i := uint64(0); i < nfields; i++ {
			st, n := binary.Uvarint(p)
			p = p[n:]
			en, n2 := binary.Uvarint(p)
			p = p[n2:]
			if st == ^uint64(0) {
				continue
			}
			_ = st
			dvChunks = append(dvChunks, clampInt(binary.BigEndian.Uint64(body[en-8:en])))
		}
	}
	res["dvChunks"] = dvChunks
	return res
}
