package main

func (e *Env) doLayout(op *Op) {}
