package main

import (
	"flag"
	"fmt"
	"math"
	"os"
	"sort"
)

// cmdRun executes a file of scenarios and writes one ndjson trace:
//
//	def_names, def_norm, def_batch*, then per scenario: reset, events..., end.
func cmdRun(scPath, trPath string) {
	fs := flag.NewFlagSet("run", flag.ExitOnError)
	fs.Parse(os.Args[4:])
	scs := readScenarios(scPath)
	tr, err := NewTrace(trPath)
	if err != nil {
		fatal(err)
	}
	work := os.Getenv("VERIF_WORK")
	if work == "" {
		work = os.TempDir()
	}
	cov := runScenarios(scs, tr, work)
	if err := tr.Close(); err != nil {
		fatal(err)
	}
	writeCov(trPath+".cov.json", cov)
}

// header writes the definitions shared by all scenarios of one trace file and
// returns the global universe (norm functions are built over it).
func header(scs []Scenario, tr *Trace) []string {
	um := map[string]bool{"_id": true}
	maxLen := 0
	kind := ""
	for i := range scs {
		sc := &scs[i]
		if i == 0 {
			kind = sc.NormKind
		} else if sc.NormKind != kind {
			fatal(fmt.Errorf("scenarios of one trace must share the norm kind"))
		}
		for _, f := range sc.Universe {
			um[f] = true
		}
		for bi := range sc.Batches {
			sc.Batches[bi] = sc.Batches[bi].Norm()
			for _, f := range sc.Batches[bi].FieldNames() {
				um[f] = true
			}
			if l := sc.Batches[bi].MaxTotalLen(); l > maxLen {
				maxLen = l
			}
			for _, d := range sc.Batches[bi] {
				for _, fi := range d {
					for _, t := range fi.Terms {
						for _, l := range t.Locs {
							if l.Field != "" {
								um[l.Field] = true
							}
						}
					}
				}
			}
		}
	}
	universe := make([]string, 0, len(um))
	for f := range um {
		universe = append(universe, f)
	}
	sort.Strings(universe)
	names := M{}
	for _, f := range universe {
		names[f] = B([]byte(f))
	}
	nb := 0
	for i := range scs {
		nb += len(scs[i].Batches)
	}
	tr.Emit(M{"ev": "def_names", "names": names, "nbatch": nb})
	nf := normFunc(kind, universe)
	table := M{}
	if kind == "const" {
		maxLen = 0 // one entry per field: the same norm for every length (field lengths near 2^31)
	}
	for _, f := range universe {
		row := make([]int, maxLen+1)
		for l := 0; l <= maxLen; l++ {
			row[l] = int(math.Float32bits(nf(f, l)))
		}
		table[f] = row
	}
	tr.Emit(M{"ev": "def_norm", "kind": kind, "table": table})
	return universe
}

func runScenarios(scs []Scenario, tr *Trace, work string) map[string]int {
	universe := header(scs, tr)
	cov := map[string]int{}
	base := 0
	for i := range scs {
		sc := &scs[i]
		for bi := range sc.Batches {
			tr.Emit(M{"ev": "def_batch", "id": base + bi, "docs": sc.Batches[bi]})
		}
		base += len(sc.Batches)
	}
	base = 0
	for i := range scs {
		sc := &scs[i]
		sc.Universe = universe
		tr.Emit(M{"ev": "reset", "scenario": sc.Name, "index": i})
		env := NewEnv(tr, sc, work)
		env.batchBase = base
		for _, t := range sc.Tags {
			cov["tag:"+t]++
		}
		env.Run(sc.Ops)
		env.Close()
		for k, v := range env.cov {
			cov[k] += v
		}
		base += len(sc.Batches)
	}
	tr.Emit(M{"ev": "end"})
	return cov
}
