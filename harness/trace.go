package main

import (
	"bufio"
	"bytes"
	"encoding/json"
	"fmt"
	"os"
	"sync"
)

type M = map[string]interface{}

// Trace writes ndjson events. Safe for concurrent use (events of one goroutine
// stay in order; Level A gives every observation a history-independent meaning
// so cross-goroutine order is irrelevant for validation).
type Trace struct {
	mu sync.Mutex
	f  *os.File
	w  *bufio.Writer
	n  int
}

func NewTrace(path string) (*Trace, error) {
	f, err := os.Create(path)
	if err != nil {
		return nil, err
	}
	return &Trace{f: f, w: bufio.NewWriterSize(f, 1<<20)}, nil
}

func (t *Trace) Emit(ev M) {
	b, err := json.Marshal(ev)
	if err != nil {
		panic(fmt.Sprintf("trace marshal: %v", err))
	}
	if bytes.Contains(b, []byte("null")) {
		// TLC's Json module has no null: nil slices become empty sequences
		var v interface{}
		if json.Unmarshal(b, &v) == nil {
			b, _ = json.Marshal(denull(v))
		}
	}
	t.mu.Lock()
	t.w.Write(b)
	t.w.WriteByte('\n')
	t.n++
	t.mu.Unlock()
}

func (t *Trace) Count() int {
	t.mu.Lock()
	defer t.mu.Unlock()
	return t.n
}

func (t *Trace) Close() error {
	t.mu.Lock()
	defer t.mu.Unlock()
	if err := t.w.Flush(); err != nil {
		return err
	}
	return t.f.Close()
}

// clampInt maps any value that TLC cannot represent (TLC integers are 32 bit)
// to -1; expected values are always small and non-negative, so an out-of-range
// observation stays a mismatch.
func clampInt(v uint64) int {
	if v > 0x7fffffff {
		return -1
	}
	return int(v)
}

func clampSigned(v int) int {
	if v < 0 || v > 0x7fffffff {
		return -1
	}
	return v
}

func denull(v interface{}) interface{} {
	switch x := v.(type) {
	case nil:
		return []interface{}{}
	case map[string]interface{}:
		for k, y := range x {
			x[k] = denull(y)
		}
		return x
	case []interface{}:
		for i, y := range x {
			x[i] = denull(y)
		}
		return x
	}
	return v
}
