package main

import (
	"encoding/json"
	"fmt"
	"os"
)

func usage() {
	fmt.Fprintln(os.Stderr, "usage: icex run <scenarios.json> <trace.ndjson> | gen <family> ...")
	os.Exit(2)
}

func main() {
	if len(os.Args) < 2 {
		usage()
	}
	switch os.Args[1] {
	case "run":
		if len(os.Args) < 4 {
			usage()
		}
		cmdRun(os.Args[2], os.Args[3])
	default:
		usage()
	}
}

func readScenarios(path string) []Scenario {
	b, err := os.ReadFile(path)
	if err != nil {
		fatal(err)
	}
	var scs []Scenario
	if err := json.Unmarshal(b, &scs); err != nil {
		var one Scenario
		if err2 := json.Unmarshal(b, &one); err2 != nil {
			fatal(err)
		}
		scs = []Scenario{one}
	}
	return scs
}

func fatal(err error) {
	fmt.Fprintln(os.Stderr, "icex: machinery fault:", err)
	os.Exit(2)
}

func writeCov(path string, cov map[string]int) {
	b, _ := json.MarshalIndent(cov, "", " ")
	os.WriteFile(path, b, 0o644)
}
