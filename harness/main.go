package main

import (
	"encoding/json"
	"fmt"
	"os"
)

func usage() {
	fmt.Fprintln(os.Stderr, "usage: icex run <scenarios.json> <trace.ndjson> | gen <family> ...")
	os.Exit(2)
}

func main() {
	if len(os.Args) < 2 {
		usage()
	}
	switch os.Args[1] {
	case "run":
		if len(os.Args) < 4 {
			usage()
		}
		cmdRun(os.Args[2], os.Args[3])
	case "gen":
		// gen <family> <seed> <n> <out.json>
		if len(os.Args) < 6 {
			usage()
		}
		scs := genFamily(os.Args[2], atoi(os.Args[3]), int(atoi(os.Args[4])))
		writeJSON(os.Args[5], scs)
	case "runfile":
		// runfile <scenarios.json> <outdir> <label> <perfile>
		if len(os.Args) < 6 {
			usage()
		}
		runChunks(os.Args[4], readScenarios(os.Args[2]), os.Args[3], int(atoi(os.Args[5])))
	case "childbuild":
		if len(os.Args) < 3 {
			usage()
		}
		cmdChildBuild(os.Args[2])
	case "genrun":
		// genrun <family> <seed> <n> <outdir> <perfile>
		if len(os.Args) < 7 {
			usage()
		}
		cmdGenRun(os.Args[2], atoi(os.Args[3]), int(atoi(os.Args[4])), os.Args[5], int(atoi(os.Args[6])))
	default:
		usage()
	}
}

func atoi(s string) int64 {
	var v int64
	if _, err := fmt.Sscan(s, &v); err != nil {
		fatal(err)
	}
	return v
}

func writeJSON(path string, v interface{}) {
	b, err := json.Marshal(v)
	if err != nil {
		fatal(err)
	}
	if err := os.WriteFile(path, b, 0o644); err != nil {
		fatal(err)
	}
}

// cmdGenRun generates n scenarios of a family and executes them, perfile scenarios
// per trace file: <outdir>/<family>-<k>.json (replayable scenarios) and .ndjson (trace).
func cmdGenRun(family string, seed int64, n int, outdir string, perfile int) {
	scs := genFamily(family, seed, n)
	runChunks(family, scs, outdir, perfile)
}

func runChunks(prefix string, scs []Scenario, outdir string, perfile int) {
	if err := os.MkdirAll(outdir, 0o755); err != nil {
		fatal(err)
	}
	total := map[string]int{}
	for k := 0; k*perfile < len(scs); k++ {
		hi := (k + 1) * perfile
		if hi > len(scs) {
			hi = len(scs)
		}
		chunk := scs[k*perfile : hi]
		if k%3 == 2 && os.Getenv("VERIF_NORM_FIXED") == "" && chunk[0].NormKind != "const" {
			// every third trace file runs with the Bluge-like norm function (a configuration of C01/C02)
			for i := range chunk {
				chunk[i].NormKind = "invsqrt"
			}
		}
		base := fmt.Sprintf("%s/%s-%04d", outdir, prefix, k)
		writeJSON(base+".json", chunk)
		tr, err := NewTrace(base + ".ndjson")
		if err != nil {
			fatal(err)
		}
		cov := runScenarios(chunk, tr, outdir)
		if err := tr.Close(); err != nil {
			fatal(err)
		}
		for c, v := range cov {
			total[c] += v
		}
	}
	writeCov(fmt.Sprintf("%s/%s.cov.json", outdir, prefix), total)
}

func readScenarios(path string) []Scenario {
	b, err := os.ReadFile(path)
	if err != nil {
		fatal(err)
	}
	var scs []Scenario
	if err := json.Unmarshal(b, &scs); err != nil {
		var one Scenario
		if err2 := json.Unmarshal(b, &one); err2 != nil {
			fatal(err)
		}
		scs = []Scenario{one}
	}
	return scs
}

func fatal(err error) {
	fmt.Fprintln(os.Stderr, "icex: machinery fault:", err)
	os.Exit(2)
}

func writeCov(path string, cov map[string]int) {
	b, _ := json.MarshalIndent(cov, "", " ")
	os.WriteFile(path, b, 0o644)
}
