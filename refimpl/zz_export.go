package refice

// Added by the verification harness (not part of the pinned sources):
// chunk-mode parameterised entry points of the frozen reference copy.

import (
	"bufio"
	"fmt"
	"io"

	"github.com/RoaringBitmap/roaring"
	segment "github.com/blugelabs/bluge_segment_api"
)

func RefNew(results []segment.Document, normCalc func(string, int) float32,
	chunkMode uint32) (segment.Segment, uint64, error) {
	return newWithChunkMode(results, normCalc, chunkMode)
}

type RefMerger struct {
	segments        []segment.Segment
	drops           []*roaring.Bitmap
	newDocNums      [][]uint64
	mergeBufferSize int
	chunkMode       uint32
}

func RefMerge(segments []segment.Segment, drops []*roaring.Bitmap, mergeBufferSize int,
	chunkMode uint32) *RefMerger {
	return &RefMerger{segments: segments, drops: drops, mergeBufferSize: mergeBufferSize,
		chunkMode: chunkMode}
}

func (m *RefMerger) WriteTo(w io.Writer, closeCh chan struct{}) (n int64, err error) {
	bases := make([]*Segment, len(m.segments))
	for i, seg := range m.segments {
		sb, ok := seg.(*Segment)
		if !ok {
			return 0, fmt.Errorf("unexpected segment type %T", seg)
		}
		bases[i] = sb
	}
	bw := bufio.NewWriterSize(w, m.mergeBufferSize)
	var sz uint64
	m.newDocNums, sz, err = mergeSegmentBasesWriter(bases, m.drops, bw, m.chunkMode, closeCh)
	if err != nil {
		return 0, err
	}
	n = int64(sz)
	err = bw.Flush()
	return n, err
}

func (m *RefMerger) DocumentNumbers() [][]uint64 {
	return m.newDocNums
}
