module verif/refimpl

go 1.16

require (
	github.com/RoaringBitmap/roaring v0.9.4
	github.com/blevesearch/mmap-go v1.0.4
	github.com/blevesearch/vellum v1.0.7
	github.com/blugelabs/bluge_segment_api v0.2.0
	github.com/klauspost/compress v1.15.2
)
