SPECIFICATION Spec
CONSTANTS
    NDocs = 7
    CS = 2
    Dev = {"NoChunkCheck"}
INVARIANT Delivered
CHECK_DEADLOCK FALSE
