-------------------------------- MODULE IceAPI --------------------------------
(***************************************************************************)
(* The ice API as a state machine over handles (Level A with state).       *)
(*                                                                         *)
(* Every action takes one *event* e: the arguments of a public call and    *)
(* the result the implementation returned.  The action                     *)
(*   - updates the handle tables exactly as Level A (IceData) prescribes,  *)
(*   - computes what IceData expects the call to return, and               *)
(*   - records in obs.bad the ids of the properties the logged result      *)
(*     contradicts.                                                        *)
(* The property invariants Inv_Cxx are "Cxx \notin obs.bad".  Because an   *)
(* action never refuses a result, a trace is always consumed to its end    *)
(* and a wrong result is reported under the property it violates instead   *)
(* of as an unexplained "trace not accepted".                              *)
(*                                                                         *)
(* Trace_API binds e to the lines of a recorded trace; GenAPI (E2) feeds   *)
(* the same actions with events whose results are the expected ones.       *)
(***************************************************************************)
EXTENDS IceData

CONSTANT BatchOf(_)        \* batch id -> Batch

VARIABLES
    segs,    \* handle -> [c, kind, impl, wimpl, mode, failed, file]
    files,   \* handle -> [c, src, impl, mode, digest, len]
    pls,     \* handle -> [seg, list, except, reuse]
    its,     \* handle -> [seg, list, actual, last, flags, reuse]
    dvrs,    \* handle -> [seg, fields, visits]
    bms,     \* handle -> [docs, digest]
    built,   \* <<batch, mode, norm, impl>> -> digest of the bytes New produced   (C14)
    digs,    \* seg handle -> digest recorded when first observed                 (C15)
    obs      \* [ev, props, bad, exp, got] of the last event

apiVars == <<segs, files, pls, its, dvrs, bms, built, digs, obs>>

Empty == <<>>              \* the empty function; tables are functions with growing domain

Put(tab, h, v) == (h :> v) @@ tab

Ended == 2147483647        \* cursor value after the end was reported: nothing lies after it

NoObs == [ev |-> "none", props |-> {}, bad |-> {}, exp |-> <<>>, got |-> <<>>]

Obs(ev, props, bad, exp, got) ==
    [ev |-> ev, props |-> props, bad |-> bad, exp |-> exp, got |-> got]

ApiInit ==
    /\ segs = Empty /\ files = Empty /\ pls = Empty /\ its = Empty /\ dvrs = Empty
    /\ bms = Empty /\ built = Empty /\ digs = Empty /\ obs = NoObs

-----------------------------------------------------------------------------
(* Attribution *)

\* the property that speaks about reads of this kind of segment
KindProp(s) ==
    LET k == segs[s].kind IN
    (IF k = "built" THEN {"C01"} ELSE IF k = "merged" THEN {"C02"} ELSE {"C04"})
    \cup (IF segs[s].impl # segs[s].wimpl \/ segs[s].impl = "ref" THEN {"C10"} ELSE {})

GProp(e) == IF e.g # 0 THEN {"C09"} ELSE {}

\* Judge a read result.  On healthy storage it must be ok and equal to the expectation.
\* Once the storage of the segment fails (C19) an error or an empty result is also fine;
\* a panic, a blocked call or a wrong non-empty result never is.
Judge(s, props, kind, val, exp, emptyVal) ==
    IF ~segs[s].failed
    THEN IF kind = "ok" /\ val = exp THEN {} ELSE props
    ELSE IF kind = "err" \/ (kind = "ok" /\ (val = exp \/ val = emptyVal)) THEN {} ELSE {"C19"}

ValidMode(m) == m \in 1..1025

-----------------------------------------------------------------------------
(* Build, merge, persist, load *)

ABuild(e) ==
    LET b   == BatchOf(e.batch)
        c   == Build(b)
        key == <<e.batch, e.mode, e.norm, e.impl>>     \* (the batch by its id: comparing contents of 10 000-term batches is slow)
        ok  == e.res.kind = "ok"
        bad == IF ~ValidMode(e.mode) THEN {}
               ELSE IF ~ValidBatch(b) THEN {"GEN"}       \* outside the input contract: the generator's fault
               ELSE (IF ~ok \/ e.res.count # Len(c.docs) THEN {"C01"} ELSE {})
                    \cup (IF ok /\ e.res.wn # e.res.wlen THEN {"C04"} ELSE {})
                    \cup (IF ok /\ key \in DOMAIN built /\ built[key] # e.res.digest
                          THEN {"C14"} ELSE {})
    IN /\ segs' = IF ok THEN Put(segs, e.seg, [c |-> c, kind |-> "built", impl |-> e.impl,
                                               wimpl |-> e.impl, mode |-> e.mode,
                                               failed |-> FALSE, file |-> 0])
                  ELSE segs
       /\ built' = IF ok /\ key \notin DOMAIN built THEN Put(built, key, e.res.digest) ELSE built
       /\ obs' = Obs("build", {"C01", "C04", "C14"}, bad, Len(c.docs), e.res)
       /\ UNCHANGED <<files, pls, its, dvrs, bms, digs>>

DropSets(e) == Force([i \in DOMAIN e.drops |-> {e.drops[i].docs[k] : k \in DOMAIN e.drops[i].docs}])

FooterBad(f, c, mode) ==
    \/ f.kind # "footer"
    \/ f.crc # f.crc_calc
    \/ f.numDocs # Len(c.docs)
    \/ f.chunkMode # mode
    \/ f.version # 2

AMerge(e) ==
    LET cs    == [i \in DOMAIN e.in |-> segs[e.in[i]].c]
        drops == DropSets(e)
        c     == Merge(cs, drops)
        map   == DocNumMap(cs, drops)
        ok    == e.res.kind = "ok"
        anyFailed == \E i \in DOMAIN e.in : segs[e.in[i]].failed
        bad   == IF anyFailed THEN (IF e.res.kind \in {"ok", "err"} THEN {} ELSE {"C19"})
                 ELSE IF ~ok THEN {"C02", "C03"}       \* no merged segment and no document-number map
                                  \cup (IF \E i \in DOMAIN e.in : segs[e.in[i]].impl # segs[e.in[i]].wimpl
                                        THEN {"C10"} ELSE {})   \* ... of a file the other implementation wrote
                 ELSE (IF e.res.docnums # map THEN {"C03"} ELSE {})
                      \cup (IF e.res.n # e.res.delivered THEN {"C11"} ELSE {})
                      \cup (IF FooterBad(e.res.footer, c, e.mode) THEN {"C11"} ELSE {})
    IN /\ \A i \in DOMAIN e.in : e.in[i] \in DOMAIN segs
       /\ ValidDrops(cs, drops)
       /\ files' = IF ok THEN Put(files, e.file, [c |-> c, src |-> "merge", impl |-> e.impl,
                                                  mode |-> e.mode, digest |-> e.res.digest,
                                                  len |-> e.res.delivered])
                   ELSE files
       /\ obs' = Obs("merge", {"C02", "C03", "C10", "C11"}, bad, map, e.res)
       /\ UNCHANGED <<segs, pls, its, dvrs, bms, built, digs>>

APersist(e) ==
    LET s   == segs[e.seg]
        ok  == e.res.kind = "ok"
        bad == IF s.failed THEN (IF e.res.kind \in {"ok", "err"} THEN {} ELSE {"C19"})
               ELSE IF ~ok THEN {"C04"}
               ELSE (IF e.res.n # e.res.delivered THEN {"C04", "C11"} ELSE {})
                    \cup (IF FooterBad(e.res.footer, s.c, s.mode) THEN {"C11"} ELSE {})
                    \cup (IF s.file # 0 /\ files[s.file].digest # e.res.digest THEN {"C11"} ELSE {})
    IN /\ e.seg \in DOMAIN segs
       /\ files' = IF ok /\ ~s.failed
                   THEN Put(files, e.file, [c |-> s.c,
                                            src |-> IF s.kind = "merged" THEN "merge" ELSE "persist",
                                            impl |-> s.impl, mode |-> s.mode,
                                            digest |-> e.res.digest, len |-> e.res.delivered])
                   ELSE files
       /\ obs' = Obs("persist", {"C04", "C11"}, bad, <<>>, e.res)
       /\ UNCHANGED <<segs, pls, its, dvrs, bms, built, digs>>

ALoad(e) ==
    IF e.res.kind = "nofile"
    THEN /\ obs' = Obs("load", {}, {}, <<>>, e.res)
         /\ UNCHANGED <<segs, files, pls, its, dvrs, bms, built, digs>>
    ELSE
    LET f   == files[e.file]
        ok  == e.res.kind = "ok"
        pr  == IF e.impl # f.impl \/ e.impl = "ref" THEN "C10" ELSE "C04"
        bad == IF ~ok THEN {pr}
               ELSE (IF e.res.count # Len(f.c.docs) THEN {pr} ELSE {})
                    \cup (IF e.res.seg.numDocs # Len(f.c.docs) \/ e.res.seg.chunkMode # f.mode
                             \/ e.res.seg.version # 2 THEN {"C11"} ELSE {})
    IN /\ e.file \in DOMAIN files
       /\ segs' = IF ok THEN Put(segs, e.seg, [c |-> f.c,
                                               kind |-> IF f.src = "merge" THEN "merged" ELSE "loaded",
                                               impl |-> e.impl, wimpl |-> f.impl, mode |-> f.mode,
                                               failed |-> FALSE, file |-> e.file])
                  ELSE segs
       /\ obs' = Obs("load", {"C04", "C10", "C11"}, bad, Len(f.c.docs), e.res)
       /\ UNCHANGED <<files, pls, its, dvrs, bms, built, digs>>

ACloseFile(e) ==
    /\ e.seg \in DOMAIN segs
    /\ segs' = [segs EXCEPT ![e.seg].failed = TRUE]
    /\ obs' = NoObs
    /\ UNCHANGED <<files, pls, its, dvrs, bms, built, digs>>

-----------------------------------------------------------------------------
(* Reads *)

Frame == UNCHANGED <<segs, files, pls, its, dvrs, bms, built, digs>>

AFields(e) ==
    LET c == segs[e.seg].c
        val == IF e.res.kind = "ok" THEN e.res.fields ELSE <<>>
        props == KindProp(e.seg) \cup GProp(e)
    IN /\ e.seg \in DOMAIN segs
       /\ obs' = Obs("fields", props, Judge(e.seg, props, e.res.kind, val, c.fields, <<>>), c.fields, e.res)
       /\ Frame

TermsOnly(es) == [k \in DOMAIN es |-> es[k].term]

ADict(e) ==
    LET c == segs[e.seg].c
        full == DictRange(c, e.field, e.lo, e.hi, e.aut)
        exp == IF e.nocount THEN TermsOnly(full) ELSE full
        got == IF e.res.kind = "ok" THEN e.res.entries ELSE <<>>
        val == IF e.nocount THEN TermsOnly(got) ELSE got
        props == {"C08"} \cup KindProp(e.seg) \cup GProp(e) \cup (IF e.reuse_dict THEN {"C13"} ELSE {})
    IN /\ e.seg \in DOMAIN segs
       /\ obs' = Obs("dict", props, Judge(e.seg, props, e.res.kind, val, exp, <<>>), exp, e.res)
       /\ Frame

AContains(e) ==
    LET c == segs[e.seg].c
        exp == \E d \in DOMAIN c.docs : HasTerm(c.docs[d], e.field, e.term)
        val == IF e.res.kind = "ok" THEN e.res.contains ELSE FALSE
        props == {"C08"} \cup KindProp(e.seg) \cup GProp(e)
    IN /\ e.seg \in DOMAIN segs
       /\ obs' = Obs("contains", props, Judge(e.seg, props, e.res.kind, val, exp, FALSE), exp, e.res)
       /\ Frame

\* Dictionary.Close(): releases the caller's dictionary object. Nothing else may notice: the segment, its
\* other dictionary objects and every later lookup of the same field behave as before (the following events say so)
ADictClose(e) ==
    LET props == {"C08"} \cup KindProp(e.seg) IN
    /\ e.seg \in DOMAIN segs
    /\ obs' = Obs("dict_close", props,
                  IF segs[e.seg].failed THEN (IF e.res.kind \in {"ok", "err"} THEN {} ELSE {"C19"})
                  ELSE IF e.res.kind = "ok" THEN {} ELSE props, <<>>, e.res)
    /\ Frame

ExceptSet(x) == {x.docs[k] : k \in DOMAIN x.docs}

CountOf(list, except) == Cardinality({i \in DOMAIN list : list[i].doc \notin except})

APlOpen(e) ==
    LET c == segs[e.seg].c
        list == Postings(c, e.field, e.term)
        ex == ExceptSet(e.except)
        exp == CountOf(list, ex)
        reuse == e.prealloc # 0 \/ e.reuse_dict
        val == IF e.res.kind = "ok" THEN e.res.count ELSE 0
        props == {"C05", "C08"} \cup KindProp(e.seg) \cup GProp(e) \cup (IF reuse THEN {"C13"} ELSE {})
    IN /\ e.seg \in DOMAIN segs
       /\ pls' = IF e.res.kind = "ok"
                 THEN Put(pls, e.pl, [seg |-> e.seg, list |-> list, except |-> ex, reuse |-> reuse])
                 ELSE pls
       /\ obs' = Obs("pl_open", props, Judge(e.seg, props, e.res.kind, val, exp, 0), exp, e.res)
       /\ UNCHANGED <<segs, files, its, dvrs, bms, built, digs>>

APlCount(e) ==
    LET p == pls[e.pl]
        exp == CountOf(p.list, p.except)
        val == IF e.res.kind = "ok" THEN e.res.count ELSE 0
        props == {"C05"} \cup KindProp(p.seg) \cup GProp(e)
    IN /\ e.pl \in DOMAIN pls
       /\ obs' = Obs("pl_count", props, Judge(p.seg, props, e.res.kind, val, exp, 0), exp, e.res)
       /\ Frame

AItOpen(e) ==
    IF e.res.kind = "nopl"
    THEN obs' = NoObs /\ Frame
    ELSE
    LET p == pls[e.pl]
        reuse == p.reuse \/ e.prealloc # 0
        props == {"C05"} \cup KindProp(p.seg) \cup GProp(e) \cup (IF reuse THEN {"C13"} ELSE {})
    IN /\ e.pl \in DOMAIN pls
       /\ its' = IF e.res.kind = "ok"
                 THEN Put(its, e.it, [seg |-> p.seg, list |-> p.list,
                                      actual |-> ListDocs(p.list) \ p.except, except |-> p.except,
                                      idx |-> 0, onehit |-> e.onehit, closed |-> FALSE,
                                      flags |-> [freq |-> e.freq, norm |-> e.norm, locs |-> e.locs],
                                      reuse |-> reuse])
                 ELSE its
       /\ obs' = Obs("it_open", props, Judge(p.seg, props, e.res.kind, 0, 0, 0), <<>>, e.res)
       /\ UNCHANGED <<segs, files, pls, dvrs, bms, built, digs>>

\* ReplaceActual(B): contract B \subseteq postings, fresh general iterator
AItReplace(e) ==
    /\ e.it \in DOMAIN its
    \* a caller-owned bitmap (bm # 0) is read from the specification's own table: what the code did to the
    \* caller's object in the meantime must not matter
    /\ its' = IF e.res.kind = "ok"
              THEN [its EXCEPT ![e.it].actual = IF e.bm # 0 THEN bms[e.bm].docs ELSE {e.docs[k] : k \in DOMAIN e.docs}]
              ELSE its
    \* contract: only a general (not 1-hit) iterator has an actual bitmap; a generator that replaces it
    \* on a 1-hit iterator is at fault, not ice
    /\ obs' = Obs("it_replace", {"C05"},
                  IF its[e.it].onehit THEN {"GEN"} ELSE IF e.res.kind = "ok" THEN {} ELSE {"C05"}, <<>>, e.res)
    /\ UNCHANGED <<segs, files, pls, dvrs, bms, built, digs>>

\* Close(): the caller is done with the iterator.  It never fails; the object may only be handed back
\* as prealloc afterwards (stepping a closed iterator is outside the contract: the generator's fault).
\* Every OTHER iteration in progress - whichever object it lives in - continues undisturbed.
AItClose(e) ==
    /\ e.it \in DOMAIN its
    /\ its' = [its EXCEPT ![e.it].closed = TRUE]
    /\ obs' = Obs("it_close", {"C05"}, IF e.res.kind = "ok" THEN {} ELSE {"C05"}, <<>>, e.res)
    /\ UNCHANGED <<segs, files, pls, dvrs, bms, built, digs>>

\* what a posting looks like through the iterator's flags
Project(p, flags) ==
    [kind |-> "hit", doc |-> p.doc,
     freq |-> IF flags.freq THEN p.freq ELSE -1,
     norm |-> IF flags.norm THEN p.norm ELSE -1,
     locs |-> IF flags.locs THEN p.locs ELSE <<>>]

AItStep(e) ==
    IF e.res.kind = "noit"
    THEN obs' = NoObs /\ Frame
    ELSE
    LET it  == its[e.it]
        d   == IF e.ev = "it_next" THEN 0 ELSE e.d
        j   == ScanFrom(it.list, it.actual, it.idx + 1, d)     \* = IterAdvance(list, actual, last, d), linear
        r   == IF j = 0 THEN [kind |-> "end"] ELSE [kind |-> "hit", p |-> it.list[j]]
        exp == IF r.kind = "end" THEN [kind |-> "end"] ELSE Project(r.p, it.flags)
        props == {"C05"} \cup KindProp(it.seg) \cup GProp(e) \cup (IF it.reuse THEN {"C13"} ELSE {})
        \* a behaviour emitted by a Level-I model carries the model's own expectation: the two
        \* levels of the specification must agree, else the generator (not ice) is at fault
        gen == (IF e.model_exp # -2 /\ e.model_exp # (IF r.kind = "end" THEN -1 ELSE r.p.doc) THEN {"GEN"} ELSE {})
               \cup (IF it.closed THEN {"GEN"} ELSE {})
        bad == gen \cup
               (IF ~segs[it.seg].failed
                THEN IF e.res = exp THEN {} ELSE props
                ELSE IF e.res.kind = "err" \/ e.res = exp \/ e.res.kind = "end" THEN {} ELSE {"C19"})
    IN /\ e.it \in DOMAIN its
       /\ its' = [its EXCEPT ![e.it].idx = IF j = 0 THEN Len(it.list) ELSE j]
       /\ obs' = Obs(e.ev, props, bad, exp, e.res)
       /\ UNCHANGED <<segs, files, pls, dvrs, bms, built, digs>>

AItCount(e) ==
    LET it == its[e.it]
        exp == CountOf(it.list, it.except)
        val == IF e.res.kind = "ok" THEN e.res.count ELSE 0
        props == {"C05"} \cup KindProp(it.seg) \cup GProp(e)
    IN /\ e.it \in DOMAIN its
       /\ obs' = Obs("it_count", props, Judge(it.seg, props, e.res.kind, val, exp, 0), exp, e.res)
       /\ Frame

Take(s, k) == IF k > 0 /\ k < Len(s) THEN SubSeq(s, 1, k) ELSE s

AStored(e) ==
    LET c == segs[e.seg].c
        exp == Take(StoredOf(c, e.n), e.stop)
        val == IF e.res.kind = "ok" THEN e.res.values ELSE <<>>
        \* every visit runs on a scratch context from the library's pool (C13: pooling never changes results)
        props == {"C06", "C13"} \cup KindProp(e.seg) \cup GProp(e) \cup (IF e.nested THEN {"C09"} ELSE {})
    IN /\ e.seg \in DOMAIN segs
       /\ obs' = Obs("stored", props, Judge(e.seg, props, e.res.kind, val, exp, <<>>), exp, e.res)
       /\ Frame

ADvOpen(e) ==
    /\ e.seg \in DOMAIN segs
    /\ dvrs' = IF e.res.kind = "ok" THEN Put(dvrs, e.r, [seg |-> e.seg, fields |-> e.fields, visits |-> 0])
               ELSE dvrs
    /\ obs' = Obs("dv_open", {"C07"}, Judge(e.seg, {"C07"}, e.res.kind, 0, 0, 0), <<>>, e.res)
    /\ UNCHANGED <<segs, files, pls, its, bms, built, digs>>

ADvVisit(e) ==
    IF e.res.kind = "noreader"
    THEN obs' = NoObs /\ Frame
    ELSE
    LET r == dvrs[e.r]
        c == segs[r.seg].c
        exp == DocValuesOf(c, e.n, r.fields)
        val == IF e.res.kind = "ok" THEN e.res.values ELSE <<>>
        props == {"C07"} \cup KindProp(r.seg) \cup GProp(e) \cup (IF r.visits > 0 THEN {"C13"} ELSE {})
    IN /\ e.r \in DOMAIN dvrs
       /\ e.n < Len(c.docs)
       /\ dvrs' = [dvrs EXCEPT ![e.r].visits = IF @ < 2 THEN @ + 1 ELSE @]
       /\ obs' = Obs("dv_visit", props, Judge(r.seg, props, e.res.kind, val, exp, <<>>), exp, e.res)
       /\ UNCHANGED <<segs, files, pls, its, bms, built, digs>>

\* dictionary iterators that stay open across calls (kept in the readers table under their own key space):
\* each yields the entries of its range in order, whatever other iterators of the same dictionary do
ADitOpen(e) ==
    LET c == segs[e.seg].c IN
    /\ e.seg \in DOMAIN segs
    /\ dvrs' = IF e.res.kind = "ok"
               THEN Put(dvrs, e.r, [seg |-> e.seg, entries |-> DictRange(c, e.field, e.lo, e.hi, e.aut), idx |-> 0])
               ELSE dvrs
    /\ obs' = Obs("dit_open", {"C08"}, Judge(e.seg, {"C08"}, e.res.kind, 0, 0, 0), <<>>, e.res)
    /\ UNCHANGED <<segs, files, pls, its, bms, built, digs>>

ADitNext(e) ==
    LET r == dvrs[e.r]
        exp == IF r.idx < Len(r.entries)
               THEN [end |-> FALSE, term |-> r.entries[r.idx + 1].term, count |-> r.entries[r.idx + 1].count]
               ELSE [end |-> TRUE, term |-> <<>>, count |-> -1]
        val == [end |-> e.res.end, term |-> e.res.term, count |-> e.res.count]
        \* the entries OTHER live iterators returned last still read the same (the harness re-reads them after this call)
        othersBad == "others_changed" \in DOMAIN e.res
        props == {"C08", "C13"} \cup KindProp(r.seg)
    IN /\ e.r \in DOMAIN dvrs
       /\ dvrs' = [dvrs EXCEPT ![e.r].idx = IF @ < Len(r.entries) THEN @ + 1 ELSE @]
       /\ obs' = Obs("dit_next", props, Judge(r.seg, props, e.res.kind, val, exp, [end |-> TRUE, term |-> <<>>, count |-> -1])
                                        \cup (IF othersBad THEN {"C08", "C13"} \cup GProp(e) ELSE {}), exp, e.res)
       /\ UNCHANGED <<segs, files, pls, its, bms, built, digs>>

\* DictionaryIterator.Close(): succeeds; the handle is gone, every other iterator (also the ones that were given the
\* same shared empty object for an unknown field or an empty range) goes on as if nothing had happened
ADitClose(e) ==
    /\ e.r \in DOMAIN dvrs
    /\ dvrs' = [k \in DOMAIN dvrs \ {e.r} |-> dvrs[k]]
    /\ obs' = Obs("dit_close", {"C08", "C13"}, IF e.res.kind = "ok" THEN {} ELSE {"C08", "C13"}, 0, e.res)
    /\ UNCHANGED <<segs, files, pls, its, bms, built, digs>>

AMatch(e) ==
    LET c == segs[e.seg].c
        exp == Matching(c, e.pairs)
        got == IF e.res.kind = "ok" THEN e.res.docs ELSE <<>>
        val == IF Len(got) = Cardinality(RangeOf(got)) THEN RangeOf(got) ELSE {-1}
        props == {"C18"} \cup KindProp(e.seg) \cup GProp(e)
    IN /\ e.seg \in DOMAIN segs
       /\ obs' = Obs("match", props, Judge(e.seg, props, e.res.kind, val, exp, {}), exp, e.res)
       /\ Frame

ZeroStats == [total |-> 0, docs |-> 0, sumttf |-> BigZero]

AStats(e) ==
    LET c == segs[e.seg].c
        exp == Stats(c, e.field)
        val == IF e.res.kind = "ok" THEN e.res.stats ELSE ZeroStats
        props == IF ContentLenIsSumFreq(c) THEN {"C16"} \cup GProp(e) ELSE {}
    IN /\ e.seg \in DOMAIN segs
       /\ obs' = Obs("stats", props,
                     IF props = {} THEN {} ELSE Judge(e.seg, props, e.res.kind, val, exp, ZeroStats),
                     exp, e.res)
       /\ Frame

AStatsMerge(e) ==
    LET c1 == segs[e.seg].c
        c2 == segs[e.seg2].c
        exp == StatsAdd(Stats(c1, e.field), Stats(c2, e.field))
        val == IF e.res.kind = "ok" THEN e.res.stats ELSE ZeroStats
        props == IF ContentLenIsSumFreq(c1) /\ ContentLenIsSumFreq(c2) THEN {"C16"} ELSE {}
    IN /\ e.seg \in DOMAIN segs /\ e.seg2 \in DOMAIN segs
       /\ obs' = Obs("stats_merge", props,
                     IF props = {} \/ (e.res.kind = "ok" /\ val = exp) THEN {} ELSE props, exp, e.res)
       /\ Frame

\* Statistics objects that live across calls (kept in dvrs under the handles the harness gives them).
\* CollectionStats(field) returns an object of the caller; Merge(o) adds o to its receiver and touches
\* nothing else - in particular no other statistics object and no segment (C15, C16).
StatObj(r) == r \in DOMAIN dvrs /\ r >= 600000

AStatsGet(e) ==
    LET c == segs[e.seg].c
        exp == Stats(c, e.field)
        val == IF e.res.kind = "ok" THEN e.res.stats ELSE ZeroStats
        sound == ContentLenIsSumFreq(c)
        props == IF sound THEN {"C16"} \cup GProp(e) ELSE {}
    IN /\ e.seg \in DOMAIN segs
       /\ dvrs' = IF e.res.kind = "ok" THEN Put(dvrs, e.r, [kind |-> "stats", val |-> exp, sound |-> sound]) ELSE dvrs
       /\ obs' = Obs("stats_get", props,
                     IF props = {} THEN {} ELSE Judge(e.seg, props, e.res.kind, val, exp, ZeroStats), exp, e.res)
       /\ UNCHANGED <<segs, files, pls, its, bms, built, digs>>

AStatsAdd(e) ==
    LET a == dvrs[e.r]
        b == dvrs[e.r2]
        exp == StatsAdd(a.val, b.val)
        props == IF a.sound /\ b.sound THEN {"C16", "C15"} ELSE {}
    IN /\ StatObj(e.r) /\ StatObj(e.r2)
       /\ dvrs' = [dvrs EXCEPT ![e.r].val = exp]
       /\ obs' = Obs("stats_add", props,
                     IF props = {} \/ (e.res.kind = "ok" /\ e.res.stats = exp) THEN {} ELSE props, exp, e.res)
       /\ UNCHANGED <<segs, files, pls, its, bms, built, digs>>

AStatsRead(e) ==
    LET a == dvrs[e.r]
        props == IF a.sound THEN {"C16", "C15"} ELSE {}
    IN /\ StatObj(e.r)
       /\ obs' = Obs("stats_read", props,
                     IF props = {} \/ (e.res.kind = "ok" /\ e.res.stats = a.val) THEN {} ELSE props, a.val, e.res)
       /\ Frame

-----------------------------------------------------------------------------
(* Immutability (C15): digests of segments and caller-owned bitmaps never change *)

ADefBm(e) ==
    /\ bms' = Put(bms, e.bm, [docs |-> {e.docs[k] : k \in DOMAIN e.docs}, digest |-> e.digest])
    /\ obs' = NoObs
    /\ UNCHANGED <<segs, files, pls, its, dvrs, built, digs>>

ADigest(e) ==
    LET segBad == \E k \in DOMAIN e.segs :
                      e.segs[k].seg \in DOMAIN digs /\ digs[e.segs[k].seg] # e.segs[k].d
        bmBad  == \E k \in DOMAIN e.bitmaps :
                      /\ e.bitmaps[k].bm \in DOMAIN bms
                      /\ \/ bms[e.bitmaps[k].bm].digest # e.bitmaps[k].d
                         \/ bms[e.bitmaps[k].bm].docs # {e.bitmaps[k].docs[j] : j \in DOMAIN e.bitmaps[k].docs}
        \* results the caller kept (the slice Fields() returned, the tables DocumentNumbers() returned) still read the same
        keptBad == \E k \in DOMAIN e.retained : ~e.retained[k].same
        hs == {e.segs[k].seg : k \in DOMAIN e.segs}
        dOf(h) == e.segs[CHOOSE k \in DOMAIN e.segs : e.segs[k].seg = h].d
    IN /\ digs' = [h \in DOMAIN digs \cup hs |-> IF h \in DOMAIN digs THEN digs[h] ELSE dOf(h)]
       /\ obs' = Obs("digest", {"C15"}, IF segBad \/ bmBad \/ keptBad THEN {"C15"} ELSE {}, digs, e)
       /\ UNCHANGED <<segs, files, pls, its, dvrs, bms, built>>

\* C17: segments that Level A cannot tell apart must be observationally identical
ASameObs(e) ==
    LET cs == [k \in DOMAIN e.segs |-> segs[e.segs[k].seg].c]
        sameA == \A k \in DOMAIN cs : SameDocs(cs[k], cs[1]) /\ cs[k].origin = cs[1].origin
        sameD == \A k \in DOMAIN e.segs : e.segs[k].d = e.segs[1].d
    IN /\ \A k \in DOMAIN e.segs : e.segs[k].seg \in DOMAIN segs
       /\ obs' = Obs("same_obs", {"C17"},
                     IF e.segs = <<>> THEN {} ELSE IF ~sameA THEN {"GEN"} ELSE IF sameD THEN {} ELSE {"C17"},
                     <<>>, e.segs)
       /\ Frame

-----------------------------------------------------------------------------
(* Format constants of version 2 (C10): what an independent walk of the bytes must find *)

StoredBlockDocs == 128      \* documents per compressed stored-field block
DvChunkDocs     == 1024     \* documents per doc-value chunk
FormatVersion   == 2

StoredChunkNum(n) == (n \div StoredBlockDocs) + 2        \* offsets recorded in the trailer
StoredBlocks(n)   == (n + StoredBlockDocs - 1) \div StoredBlockDocs
DvChunks(n)       == ((n - 1) \div DvChunkDocs) + 1

ALayout(e) ==
    LET f == files[e.file]
        n == Len(f.c.docs)
        r == e.res
        bad == \/ r.kind # "ok"
               \/ r.numDocs # n \/ r.version # FormatVersion \/ r.chunkMode # f.mode
               \/ r.storedChunkNum # StoredChunkNum(n) \/ r.storedOffsets # StoredChunkNum(n)
               \/ r.storedBlocks # StoredBlocks(n) \/ ~r.zstdMagic
               \/ r.nfields # Len(f.c.fields)
               \/ \E k \in DOMAIN r.dvChunks : r.dvChunks[k] # DvChunks(n)
    IN /\ e.file \in DOMAIN files
       /\ obs' = Obs("layout", {"C10"}, IF bad THEN {"C10"} ELSE {}, <<n, StoredChunkNum(n), StoredBlocks(n)>>, e.res)
       /\ Frame

-----------------------------------------------------------------------------
(* Schedules, races and writer faults: outcome events judged by the specification *)

\* C09: every process of a forced schedule / free-running group finished
AStuck(e) ==
    /\ obs' = Obs(e.ev, {"C09"}, IF e.stuck > 0 THEN {"C09"} ELSE {}, 0, e.stuck)
    /\ Frame

\* C09 / C14: the race detector reported no unsynchronised access inside ice
ARace(e) ==
    /\ obs' = Obs("race_report", {e.prop}, IF e.n > 0 THEN {e.prop} ELSE {}, 0, e)
    /\ Frame

\* C12: one outcome <<k, err, delivered, complete, prefix, n>> of a run whose writer fails from
\* byte k on ("fail") or whose close channel is closed once k bytes were written ("close");
\* L is the length of the fault-free file.
OutcomeBad(o, mode, L) ==
    LET k == o[1]  err == o[2]  complete == o[4]  n == o[6] IN
    IF mode \in {"fail", "retry", "fail1", "failsync", "fullerr1"}   \* "fullerr1": one Write call takes all its bytes AND returns an error, later calls are accepted; "failsync": "fail" on a destination that also has a Sync method; "retry": a second WriteTo on the same Merger after a complete first one;
                                              \* "fail1": a single Write call fails, later ones are accepted again
    THEN \/ err \in {"panic", "blocked", "closed"}
         \/ (k < L /\ err = "nil")                              \* silent success on a failed writer
         \/ (k >= L /\ (err # "nil" \/ ~complete \/ n # L))      \* nothing failed: must succeed fully
    ELSE \/ err \notin {"nil", "closed"}
         \/ (err = "nil" /\ (~complete \/ n # L))                \* success only for the complete file

\* C11: a call that reports success returned the number of bytes its destination received
CountBad(o) == o[2] = "nil" /\ o[6] # o[3]

AWFault(e) ==
    LET bad == IF e.res.kind # "ok" THEN {"C12"}
               ELSE (IF \E i \in DOMAIN e.outcomes : OutcomeBad(e.outcomes[i], e.mode, e.L) THEN {"C12"} ELSE {})
                    \cup (IF e.mode # "close" /\ \E i \in DOMAIN e.outcomes : CountBad(e.outcomes[i]) THEN {"C11"} ELSE {})
        firstBad == IF e.res.kind = "ok" /\ bad # {}
                    THEN e.outcomes[CHOOSE i \in DOMAIN e.outcomes : OutcomeBad(e.outcomes[i], e.mode, e.L) \/ CountBad(e.outcomes[i])]
                    ELSE <<>>
    IN /\ obs' = Obs("wfault", {"C11", "C12"}, bad, <<e.kind, e.mode, e.buf, e.L>>, firstBad)
       /\ Frame

\* C19 / C03: the same merge run again and again while ONE read of a file-backed input fails (the k-th read of the
\* run; "once": only that read, "after": every read from it on).  Each outcome <<k, mode, err, same>>: a run that
\* reports success delivered exactly the bytes of the undisturbed merge (a merge is a function of its inputs);
\* nothing panics or hangs.  Whether a run fails is not prescribed: a read may be one the result does not need.
SweepBad(o) == o[3] \in {"panic", "blocked"} \/ (o[3] = "nil" /\ ~o[4])
AMergeFSweep(e) ==
    LET bad == IF e.res.kind # "ok" THEN {} ELSE
               IF \E i \in DOMAIN e.outcomes : SweepBad(e.outcomes[i]) THEN {"C19", "C03"} ELSE {}
        firstBad == IF bad # {} THEN e.outcomes[CHOOSE i \in DOMAIN e.outcomes : SweepBad(e.outcomes[i])] ELSE <<>>
    IN /\ obs' = Obs("merge_fsweep", {"C19", "C03"}, bad, <<e.file, e.seg, e.reads>>, firstBad)
       /\ Frame

\* C19 / C04: the same file loaded through on-demand storage while ONE read of the Load call fails.  A Load that
\* reports success yields the segment an undisturbed Load yields (same full observation); nothing panics or hangs.
ALoadFSweep(e) ==
    LET bad == IF \E i \in DOMAIN e.outcomes : SweepBad(e.outcomes[i]) THEN {"C19", "C04"} ELSE {}
        firstBad == IF bad # {} THEN e.outcomes[CHOOSE i \in DOMAIN e.outcomes : SweepBad(e.outcomes[i])] ELSE <<>>
    IN /\ obs' = Obs("load_fsweep", {"C19", "C04"}, bad, <<e.file, e.reads>>, firstBad)
       /\ Frame

\* the harness dropped its temporary handles; forget them too (keeps the tables small)
Without(tab, h) == [k \in DOMAIN tab \ {h} |-> tab[k]]
AForget(e) ==
    /\ pls' = Without(pls, e.pl)
    /\ its' = Without(its, e.it)
    /\ obs' = NoObs
    /\ UNCHANGED <<segs, files, dvrs, bms, built, digs>>

AReset ==
    /\ segs' = Empty /\ files' = Empty /\ pls' = Empty /\ its' = Empty /\ dvrs' = Empty
    /\ bms' = Empty /\ built' = Empty /\ digs' = Empty /\ obs' = NoObs

-----------------------------------------------------------------------------
(* Property invariants *)

Bad(p) == p \in obs.bad
Inv_C01 == ~Bad("C01")
Inv_C02 == ~Bad("C02")
Inv_C03 == ~Bad("C03")
Inv_C04 == ~Bad("C04")
Inv_C05 == ~Bad("C05")
Inv_C06 == ~Bad("C06")
Inv_C07 == ~Bad("C07")
Inv_C08 == ~Bad("C08")
Inv_C09 == ~Bad("C09")
Inv_C10 == ~Bad("C10")
Inv_C11 == ~Bad("C11")
Inv_C12 == ~Bad("C12")
Inv_C13 == ~Bad("C13")
Inv_C14 == ~Bad("C14")
Inv_C15 == ~Bad("C15")
Inv_C16 == ~Bad("C16")
Inv_C17 == ~Bad("C17")
Inv_C18 == ~Bad("C18")
Inv_C19 == ~Bad("C19")
Inv_GEN == ~Bad("GEN")    \* generator/harness consistency, not a property
NoBad == obs.bad = {}

=============================================================================
