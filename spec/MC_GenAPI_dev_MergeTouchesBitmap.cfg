SPECIFICATION Spec
CONSTANTS
    Catalogue <- McCatalogue
    MaxOps = 4
    BatchIds = {1, 3}
    Dev = {"MergeTouchesBitmap"}
    FieldBytes <- McFieldBytes
    NormTable <- McNormTable
VIEW view
INVARIANT ReuseTransparent
PROPERTIES SegmentsImmutable BitmapsImmutable StatsIndependent FieldListsImmutable DitsIndependent
CHECK_DEADLOCK FALSE
