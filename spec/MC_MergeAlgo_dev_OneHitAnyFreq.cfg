SPECIFICATION Spec
CONSTANTS
    Catalogue <- McCatalogue
    MaxSegs = 2
    Dev = {"OneHitAnyFreq"}
    FieldBytes <- McFieldBytes
    NormOf <- McNormOf
INVARIANT AllRefine
CHECK_DEADLOCK FALSE
