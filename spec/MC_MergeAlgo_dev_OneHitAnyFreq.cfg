SPECIFICATION Spec
CONSTANTS
    Catalogue <- McCatalogue
    SelIds = {1, 2, 3, 4, 5, 6, 7}
    MaxSegs = 2
    Dev = {"OneHitAnyFreq"}
    FieldBytes <- McFieldBytes
    NormTable <- McNormTable
INVARIANT AllRefine
CHECK_DEADLOCK FALSE
