SPECIFICATION Spec
CONSTANTS
    Catalogue <- BuildCatalogue
    Dev = {"LaterInstanceFieldName"}
    FieldBytes <- McFieldBytes
    NormTable <- McNormTable
INVARIANT AllRefine
CHECK_DEADLOCK FALSE
