SPECIFICATION Spec
CONSTANTS
    Catalogue <- BuildCatalogue
    Dev = {"LaterInstanceFieldName"}
    FieldBytes <- McFieldBytes
    NormOf <- McNormOf
INVARIANT AllRefine
CHECK_DEADLOCK FALSE
