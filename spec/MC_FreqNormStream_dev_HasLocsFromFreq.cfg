SPECIFICATION Spec
CONSTANTS
    Freqs = {1, 63, 64, 128, 8192}
    Norms = {1, 128, 20000}
    MaxPostings = 2
    Dev = {"HasLocsFromFreq"}
INVARIANT AllInv
CHECK_DEADLOCK FALSE
