------------------------------- MODULE DvMerge -------------------------------
(***************************************************************************)
(* Level I: the per-field bookkeeping of the merger between the segments   *)
(* it was given and the segments that take part in ONE field (merge.go     *)
(* setupActiveForField, persistMergedRestField, buildMergedDocVals,        *)
(* writeDvLocs) - C02, C07.                                                *)
(*                                                                         *)
(* The stored-section pass produced newDocNumsIn: for EVERY input segment  *)
(* the old -> new document number table.  For each merged field (the union *)
(* of the inputs' field lists, sorted, at its MERGED field id) the merger   *)
(* collects the segments "in focus" - those whose dictionary for the field *)
(* has at least one term - and, index-aligned with that list, their        *)
(* tables, drops and dictionaries.  Two consumers index the aligned lists  *)
(* with a position IN FOCUS: the postings loop (newDocNums[itrI]) and the   *)
(* doc-value pass (newDocNums[segmentI]).  The doc-value pass finds a       *)
(* segment's reader under the segment's OWN id of the field                *)
(* (seg.fieldsMap[name]-1), iterates the documents that have values in     *)
(* ascending order, skips dropped ones and adds the rest under their new   *)
(* number; the content coder needs ascending numbers.  A field gets a      *)
(* doc-value section iff some segment in focus has a reader for it; the    *)
(* section table is written per MERGED field id.                            *)
(*                                                                         *)
(* Checked for every small configuration of segments (field lists in       *)
(* either order, fields without terms in some segments, doc-value flags,   *)
(* deletions): each surviving document's values and postings arrive under  *)
(* its new number, for every field, and nothing else arrives.              *)
(*                                                                         *)
(* Deviations: "UnfilteredTable" (the consumers get newDocNumsIn itself -  *)
(* seeded C07-c), "MergedFieldId" (the reader is looked up under the       *)
(* merged id), "NoDropCheck" (dropped documents are added under the        *)
(* sentinel), "SectionOfLastSegment" (fdvReadersAvailable is assigned, not *)
(* accumulated: the last segment in focus decides about the section).      *)
(***************************************************************************)
EXTENDS Integers, Sequences, FiniteSets, TLC, SequencesExt, Json

CONSTANTS NSegs, MaxDocs, Dev

Fields == {"f", "g"}
FieldLists == {<<>>, <<"f">>, <<"g">>, <<"f", "g">>, <<"g", "f">>}
Dropped == -1
Segs == 1..NSegs

\* a segment: its field list (ids = positions), its documents, per field the documents that have a term,
\* whether the field was indexed with doc values, and the deletions
SegCfg == [fields : FieldLists, ndocs : 1..MaxDocs,
           tdocs : [Fields -> SUBSET (0..(MaxDocs - 1))], dv : [Fields -> BOOLEAN],
           drops : SUBSET (0..(MaxDocs - 1))]
ValidSeg(c) ==
    /\ c.drops \subseteq 0..(c.ndocs - 1)
    /\ \A F \in Fields : /\ c.tdocs[F] \subseteq 0..(c.ndocs - 1)
                         /\ (F \notin Range(c.fields) => (c.tdocs[F] = {} /\ ~c.dv[F]))
                         /\ (c.tdocs[F] = {} => ~c.dv[F])        \* a field without terms has no doc values

VARIABLES cfg,      \* Seq(SegCfg)
          fi,       \* index into MergedFields of the field being written (Len+1: done)
          k,        \* position in the focus list of the segment the doc-value pass is at (0: postings pass not done)
          posts,    \* field -> set of new numbers that got a posting
          dvout,    \* field -> [new number -> <<segment, field, old number>>]
          sect,     \* merged field id -> has a doc-value section
          avail,    \* fdvReadersAvailable of the current field
          last,     \* last new number added to the content coder of the current field (-1: none)
          bad       \* an index out of range / a number out of order happened
vars == <<cfg, fi, k, posts, dvout, sect, avail, last, bad>>

-----------------------------------------------------------------------------
(* what the earlier passes computed *)

Ord(F) == IF F = "f" THEN 1 ELSE 2
MergedFields == SetToSortSeq(UNION {Range(cfg[s].fields) : s \in Segs}, LAMBDA a, b : Ord(a) < Ord(b))    \* sort.Strings

Survivors(s) == (0..(cfg[s].ndocs - 1)) \ cfg[s].drops
Base(s) == FoldLeft(LAMBDA acc, x : acc + Cardinality(Survivors(x)), 0, [i \in 1..(s - 1) |-> i])
\* newDocNumsIn[s]: old -> new, Dropped for deleted documents
TableIn(s) == [d \in 0..(cfg[s].ndocs - 1) |->
                  IF d \in cfg[s].drops THEN Dropped
                  ELSE Base(s) + Cardinality({x \in Survivors(s) : x < d})]

IdIn(s, F) == IF F \in Range(cfg[s].fields) THEN CHOOSE i \in DOMAIN cfg[s].fields : cfg[s].fields[i] = F ELSE 0

-----------------------------------------------------------------------------
(* setupActiveForField *)

InFocus(s, F) == cfg[s].tdocs[F] # {}                       \* dict != nil && dict.fst != nil && itr != nil
Focus(F) == SelectSeq([i \in Segs |-> i], LAMBDA s : InFocus(s, F))

\* the table the consumers see at focus position p
TableAt(F, p) == IF "UnfilteredTable" \in Dev THEN TableIn(p) ELSE TableIn(Focus(F)[p])

-----------------------------------------------------------------------------
(* the postings pass of the current field: every posting of every segment in focus, renumbered *)

F0 == MergedFields[fi]

PostingsPass ==
    /\ fi <= Len(MergedFields) /\ k = 0
    /\ LET fc == Focus(F0)
           news == UNION {{TableAt(F0, p)[d] : d \in {x \in cfg[fc[p]].tdocs[F0] : x \in DOMAIN TableAt(F0, p)}} : p \in DOMAIN fc}
           oob == \E p \in DOMAIN fc : \E d \in cfg[fc[p]].tdocs[F0] : d \notin DOMAIN TableAt(F0, p)
       IN /\ posts' = [posts EXCEPT ![F0] = news \ {Dropped}]       \* the iterator excludes the drops itself
          /\ bad' = (bad \/ oob)
    /\ k' = 1 /\ avail' = FALSE /\ last' = -1
    /\ UNCHANGED <<cfg, fi, dvout, sect>>

-----------------------------------------------------------------------------
(* buildMergedDocVals: one segment in focus per step *)

\* the field whose reader the pass picks up in segment s
ReaderField(s) ==
    LET id == IF "MergedFieldId" \in Dev THEN fi ELSE IdIn(s, F0)
    IN IF id \in DOMAIN cfg[s].fields THEN cfg[s].fields[id] ELSE "none"

DvStep ==
    /\ fi <= Len(MergedFields) /\ k >= 1 /\ k <= Len(Focus(F0))
    /\ LET s  == Focus(F0)[k]
           rf == ReaderField(s)
           has == rf # "none" /\ cfg[s].dv[rf]
           tab == TableAt(F0, k)
           ds == IF has THEN SetToSortSeq(cfg[s].tdocs[rf], <) ELSE <<>>
           \* fold over the documents in ascending order: <<mapping, last, bad>>
           r == FoldLeft(LAMBDA acc, d :
                    IF d \notin DOMAIN tab THEN <<acc[1], acc[2], TRUE>>
                    ELSE IF tab[d] = Dropped /\ "NoDropCheck" \notin Dev THEN acc
                    ELSE <<[x \in DOMAIN acc[1] \cup {tab[d]} |-> IF x = tab[d] THEN <<s, rf, d>> ELSE acc[1][x]],
                           tab[d], acc[3] \/ tab[d] <= acc[2]>>,
                    <<dvout[F0], last, bad>>, ds)
       IN /\ dvout' = [dvout EXCEPT ![F0] = r[1]]
          /\ last' = r[2] /\ bad' = r[3]
          /\ avail' = IF "SectionOfLastSegment" \in Dev THEN has ELSE (avail \/ has)
    /\ k' = k + 1
    /\ UNCHANGED <<cfg, fi, posts, sect>>

FieldDone ==
    /\ fi <= Len(MergedFields) /\ k = Len(Focus(F0)) + 1
    /\ sect' = [sect EXCEPT ![fi] = avail]
    /\ fi' = fi + 1 /\ k' = 0
    /\ UNCHANGED <<cfg, posts, dvout, avail, last, bad>>

Init ==
    /\ cfg \in [Segs -> SegCfg]
    /\ \A s \in Segs : ValidSeg(cfg[s])
    /\ fi = 1 /\ k = 0
    /\ posts = [F \in Fields |-> {}] /\ dvout = [F \in Fields |-> <<>>]
    /\ sect = [i \in 1..2 |-> FALSE] /\ avail = FALSE /\ last = -1 /\ bad = FALSE

Next == PostingsPass \/ DvStep \/ FieldDone
Spec == Init /\ [][Next]_vars

-----------------------------------------------------------------------------
(* Level A seen through this abstraction *)

Done == fi = Len(MergedFields) + 1

ExpPosts(F) == UNION {{TableIn(s)[d] : d \in cfg[s].tdocs[F] \ cfg[s].drops} : s \in Segs}
ExpDv(F) ==
    LET src == {<<s, d>> \in Segs \X (0..(MaxDocs - 1)) : cfg[s].dv[F] /\ d \in cfg[s].tdocs[F] \ cfg[s].drops}
    IN [n \in {TableIn(p[1])[p[2]] : p \in src} |->
            LET p == CHOOSE q \in src : TableIn(q[1])[q[2]] = n IN <<p[1], F, p[2]>>]

NoFault       == ~bad
PostingsRight == Done => \A F \in Range(MergedFields) : posts[F] = ExpPosts(F)                   \* C02
ValuesRight   == Done => \A F \in Range(MergedFields) : dvout[F] = ExpDv(F)                      \* C07 (merged)
SectionRight  == Done => \A i \in DOMAIN MergedFields :
                     sect[i] = (\E s \in Segs : cfg[s].dv[MergedFields[i]])                      \* C07: nothing for fields without doc values
AllRight == NoFault /\ PostingsRight /\ ValuesRight /\ SectionRight

-----------------------------------------------------------------------------
(* E2: random configurations for the real merger (drawn by the first step: the simulator computes the initial
   states only once) *)
Pick(S) == RandomElement(S)
RandomSeg(x) ==
    LET fl == Pick(FieldLists)
        nd == Pick(1..MaxDocs)
        td == [F \in Fields |-> IF F \in Range(fl) THEN Pick(SUBSET (0..(nd - 1))) ELSE {}]
    IN [fields |-> fl, ndocs |-> nd, tdocs |-> td,
        dv |-> [F \in Fields |-> td[F] # {} /\ Pick(BOOLEAN)],
        drops |-> Pick(SUBSET (0..(nd - 1)))]
GenInit == /\ cfg = <<>> /\ fi = 1 /\ k = 0
           /\ posts = [F \in Fields |-> {}] /\ dvout = [F \in Fields |-> <<>>]
           /\ sect = [i \in 1..2 |-> FALSE] /\ avail = FALSE /\ last = -1 /\ bad = FALSE
GenNext == IF cfg = <<>>
           THEN cfg' = [s \in Segs |-> RandomSeg(s)] /\ UNCHANGED <<fi, k, posts, dvout, sect, avail, last, bad>>
           ELSE Next
GenSpec == GenInit /\ [][GenNext]_vars
Emit == (cfg # <<>> /\ Done) =>
            PrintT(<<"BEHAVIOUR", ToJson([segs |-> [s \in Segs |->
                        [fields |-> cfg[s].fields, ndocs |-> cfg[s].ndocs,
                         tdocs |-> [F \in Fields |-> SetToSortSeq(cfg[s].tdocs[F], <)],
                         dv |-> cfg[s].dv, drops |-> SetToSortSeq(cfg[s].drops, <)]]])>>)

=============================================================================
