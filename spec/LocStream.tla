------------------------------ MODULE LocStream ------------------------------
(***************************************************************************)
(* Level I: the per-chunk location stream of a postings list and the two   *)
(* parties that must agree on its framing - C01, C02, C05.                 *)
(*                                                                         *)
(* Writers (new.go writePostings, merge.go mergeTermFreqNormLocs): for a   *)
(* posting with locations they first COMPUTE the number of bytes the       *)
(* location records will take (totalUvarintBytes of field id, pos, start,  *)
(* end per location) and write it as a prefix, then write the records.     *)
(* Two sites - the size computation and the encoding - must see the same   *)
(* four numbers.                                                            *)
(*                                                                         *)
(* Reader (posting.go nextAtOrAfter / currChunkNext): with locations       *)
(* requested it reads the prefix n and then decodes records until n bytes  *)
(* are consumed; a posting that is skipped (Advance, exclusions, locations *)
(* not requested... ) is stepped over with SkipBytes(n).                   *)
(*                                                                         *)
(* Bytes are modelled by their count only: a uvarint x occupies W(x)       *)
(* bytes, the stream is the sequence of its varints with their start       *)
(* offsets, and a read at an offset where no varint starts is a framing    *)
(* error (in the code: garbage values, index out of range, EOF).           *)
(*                                                                         *)
(* Checked for every list of up to MaxPostings postings with up to MaxLocs *)
(* locations whose components are drawn from values on both sides of the   *)
(* 1/2/3-byte varint widths, and every read/skip pattern.                  *)
(***************************************************************************)
EXTENDS Integers, Sequences, FiniteSets, TLC, SequencesExt, Json

CONSTANTS FieldIds, PosVals, StartVals, EndVals,   \* component values
          MaxPostings, MaxLocs, Dev

W(x) == IF x < 128 THEN 1 ELSE IF x < 16384 THEN 2 ELSE IF x < 2097152 THEN 3 ELSE 4

LocRec == [field : FieldIds, pos : PosVals, start : StartVals, end : EndVals]

VARIABLES cfg,     \* [posts : Seq(Seq(LocRec)), plan : Seq({"read","skip"})], posts[k] = <<>>: no locations, nothing in the stream
          k,       \* next posting
          off,     \* reader offset in bytes
          ok,      \* no framing error so far, and every read returned the posting's own locations
          hist
vars == <<cfg, k, off, ok, hist>>

-----------------------------------------------------------------------------
(* Writer *)

SizeOf(l) ==
    (IF "SizeOfIdPlusOne" \in Dev THEN W(l.field + 1) ELSE W(l.field))    \* the merger sees id+1 in its map
    + W(l.pos) + W(l.start) + (IF "SizeWithoutEnd" \in Dev THEN 0 ELSE W(l.end))

Prefix(ls) ==
    IF "PrefixCountsRecords" \in Dev THEN Len(ls)
    ELSE FoldLeft(LAMBDA acc, l : acc + SizeOf(l), 0, ls)

\* the varints of one posting, in stream order
Varints(ls) ==
    <<Prefix(ls)>> \o FoldLeft(LAMBDA acc, l : acc \o <<l.field, l.pos, l.start, l.end>>, <<>>, ls)

Stream(posts) ==
    FoldLeft(LAMBDA acc, ls : IF ls = <<>> THEN acc ELSE acc \o Varints(ls), <<>>, posts)

\* start offset of varint i (1-based) and total length
StartOf(s, i) == FoldLeft(LAMBDA acc, x : acc + W(x), 0, SubSeq(s, 1, i - 1))
TotalLen(s) == StartOf(s, Len(s) + 1)

\* the varint that starts at byte offset o: its index, or 0 (framing error / past the end)
At(s, o) == LET I == {i \in DOMAIN s : StartOf(s, i) = o} IN IF I = {} THEN 0 ELSE CHOOSE i \in I : TRUE

-----------------------------------------------------------------------------
(* Reader *)

\* decode records from offset o until n bytes are consumed: <<locs, new offset, fine>>
RECURSIVE Decode(_, _, _, _)
Decode(s, o, stop, acc) ==
    IF o >= stop THEN <<acc, o, TRUE>>      \* the code only compares the consumed count with n
    ELSE LET i == At(s, o) IN
         IF i = 0 \/ i + 3 > Len(s) THEN <<acc, o, FALSE>>
         ELSE Decode(s, StartOf(s, i + 4), stop,
                     Append(acc, [field |-> s[i], pos |-> s[i + 1], start |-> s[i + 2], end |-> s[i + 3]]))

ReadStep ==
    LET s  == Stream(cfg.posts)
        ls == cfg.posts[k]
        i  == At(s, off)
    IN IF ls = <<>>
       THEN /\ off' = off /\ ok' = ok                      \* hasLocs = false: the location stream is not touched
            /\ hist' = Append(hist, [k |-> k, act |-> cfg.plan[k], locs |-> <<>>])
       ELSE IF i = 0
       THEN off' = off /\ ok' = FALSE /\ hist' = hist
       ELSE LET n == s[i]
                body == StartOf(s, i + 1)
            IN IF cfg.plan[k] = "skip"
               THEN /\ off' = body + n                       \* SkipBytes(n)
                    /\ ok' = ok
                    /\ hist' = Append(hist, [k |-> k, act |-> "skip", locs |-> <<>>])
               ELSE LET r == Decode(s, body, body + n, <<>>) IN
                    /\ off' = r[2]
                    /\ ok' = (ok /\ r[3] /\ r[1] = ls)
                    /\ hist' = Append(hist, [k |-> k, act |-> "read", locs |-> r[1]])

Init ==
    /\ cfg \in {c \in [posts : UNION {[1..n -> UNION {[1..m -> LocRec] : m \in 0..MaxLocs}] : n \in 1..MaxPostings},
                       plan  : UNION {[1..n -> {"read", "skip"}] : n \in 1..MaxPostings}] :
                    Len(c.posts) = Len(c.plan)}
    /\ k = 1 /\ off = 0 /\ ok = TRUE /\ hist = <<>>

Next ==
    /\ k <= Len(cfg.posts)
    /\ ReadStep
    /\ k' = k + 1
    /\ UNCHANGED cfg

Spec == Init /\ [][Next]_vars

\* every read delivered the posting's own locations and nothing was mis-framed
Framed == ok
\* at the end the reader stands exactly at the end of the stream
Consumed == k > Len(cfg.posts) => (ok => off = TotalLen(Stream(cfg.posts)))

AllInv == Framed /\ Consumed

-----------------------------------------------------------------------------
(* E2: random configurations for execution on the real builder, merger and iterator *)

Pick(S) == RandomElement(S)
RandomLoc(d) == [field |-> Pick(FieldIds), pos |-> Pick(PosVals), start |-> Pick(StartVals), end |-> Pick(EndVals)]
RandomCfg(d) ==
    LET n == Pick(2..5)
    IN [posts |-> [p \in 1..n |-> LET m == Pick(0..3) IN [j \in 1..m |-> RandomLoc(d)]],
        plan  |-> [p \in 1..n |-> Pick({"read", "skip"})]]
\* (the simulator computes the initial states once, so the configuration is drawn by the first step)
GenInit == hist = <<>> /\ k = 1 /\ off = 0 /\ ok = TRUE /\ cfg = [posts |-> <<>>, plan |-> <<>>]
GenNext == IF cfg.posts = <<>>
           THEN cfg' = RandomCfg(hist) /\ UNCHANGED <<k, off, ok, hist>>
           ELSE Next
GenSpec == GenInit /\ [][GenNext]_vars
Emit == (cfg.posts # <<>> /\ k > Len(cfg.posts)) => PrintT(<<"BEHAVIOUR", ToJson([posts |-> cfg.posts, plan |-> cfg.plan, hist |-> hist])>>)

=============================================================================
