------------------------------ MODULE Enumerator ------------------------------
(***************************************************************************)
(* Level I: the k-way enumerator over the input segments' FST iterators    *)
(* (enumerator.go) that drives the per-field merge loop - C02.             *)
(*                                                                         *)
(* Each input iterator yields its terms in ascending order; an exhausted   *)
(* vellum iterator reports an empty key with value 0.  The enumerator      *)
(* keeps the current key/value of every iterator, the lowest key and the   *)
(* indexes holding it (lowIdxs), hands out (lowK, index, value) for each   *)
(* of them in index order, then advances exactly those iterators.  Empty   *)
(* keys are skipped after the first round (an iterator that ran dry looks  *)
(* like the empty term), but the genuine empty term, which can only be an  *)
(* iterator's FIRST key, must be enumerated in the first round.            *)
(* Terms are positive integers ordered by <; 0 is the empty term.          *)
(*                                                                         *)
(* Invariant at the end: the enumeration is exactly the sequence of        *)
(* (term, segment) pairs sorted by (term, segment).                        *)
(***************************************************************************)
EXTENDS Integers, Sequences, FiniteSets, TLC, SequencesExt

CONSTANTS NSegs, Terms, Dev       \* Terms: set of naturals, 0 = the empty term

VARIABLES lists,     \* segment -> ascending sequence of its terms
          pos,       \* segment -> index of its current key (Len+1 = exhausted)
          lowK, lowIdxs, lowCurr,
          out, done
vars == <<lists, pos, lowK, lowIdxs, lowCurr, out, done>>

Segs == 1..NSegs
Exhausted(i) == pos[i] > Len(lists[i])
CurK(i) == IF Exhausted(i) THEN 0 ELSE lists[i][pos[i]]          \* a dry iterator shows the empty key
CurV(i) == IF Exhausted(i) THEN 0 ELSE 1                          \* ... with value 0

\* updateMatches(skipEmptyKey) for given positions p.  The code does not know which iterators are
\* exhausted: it skips (a) a nil key with value 0 (an iterator that was empty from the start) and
\* (b) any empty key once skipEmptyKey is set.
Matches(p, skipEmpty) ==
    LET ex(i) == p[i] > Len(lists[i])
        k(i) == IF ex(i) THEN 0 ELSE lists[i][p[i]]
        nilKey(i) == lists[i] = <<>>                                  \* never had a key: (nil, 0)
        skipE == IF "NeverSkipEmpty" \in Dev THEN FALSE ELSE IF "AlwaysSkipEmpty" \in Dev THEN TRUE ELSE skipEmpty
        live == {i \in Segs : ~nilKey(i) /\ ~(k(i) = 0 /\ skipE)}
        low == IF live = {} THEN -1 ELSE CHOOSE x \in {k(i) : i \in live} : \A j \in live : x <= k(j)
    IN [k |-> low, idxs |-> SetToSortSeq({i \in live : k(i) = low}, <)]

Init ==
    /\ lists \in [Segs -> {SetToSortSeq(S, <) : S \in SUBSET Terms}]
    /\ pos = [i \in Segs |-> 1]
    /\ LET m == Matches([i \in Segs |-> 1], FALSE) IN lowK = m.k /\ lowIdxs = m.idxs
    /\ lowCurr = 1 /\ out = <<>> /\ done = FALSE

\* one iteration of the merge loop: Current(), then Next()
Step ==
    /\ ~done
    /\ IF lowIdxs = <<>> \/ Len(out) > 3 * Cardinality(Terms) * NSegs        \* (bound for the runaway deviation)
       THEN done' = TRUE /\ UNCHANGED <<lists, pos, lowK, lowIdxs, lowCurr, out>>      \* ErrIteratorDone
       ELSE /\ out' = Append(out, <<lowK, lowIdxs[lowCurr]>>)
            /\ IF lowCurr < Len(lowIdxs)
               THEN lowCurr' = lowCurr + 1 /\ UNCHANGED <<pos, lowK, lowIdxs, done>>
               ELSE LET p2 == [i \in Segs |-> IF i \in {lowIdxs[j] : j \in DOMAIN lowIdxs} THEN pos[i] + 1 ELSE pos[i]]
                        m == Matches(p2, TRUE)
                    IN /\ pos' = p2 /\ lowK' = m.k /\ lowIdxs' = m.idxs /\ lowCurr' = 1
                       /\ done' = (m.idxs = <<>>)
            /\ UNCHANGED lists
Spec == Init /\ [][Step]_vars /\ WF_vars(Step)

PairLess(a, b) == a[1] < b[1] \/ (a[1] = b[1] /\ a[2] < b[2])
Expected == SetToSortSeq(UNION {{<<lists[i][k], i>> : k \in DOMAIN lists[i]} : i \in Segs}, PairLess)

Complete == done => out = Expected
Terminates == <>done

=============================================================================
