SPECIFICATION FSpec
CONSTANTS
    WriteLists <- McWriteLists
    BufSizes = {1, 2, 3, 4, 16}
    Dev = {"PollReturnsStaleErr"}
INVARIANTS NoSilentSuccess FailingWriterReported ClosedOrComplete NoFaultSucceeds
PROPERTY Terminates
CHECK_DEADLOCK FALSE
