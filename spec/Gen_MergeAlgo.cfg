SPECIFICATION Spec
CONSTANTS
    Catalogue <- McCatalogue
    SelIds = {1, 2, 3, 4, 5, 6, 7}
    MaxSegs = 2
    Dev = {}
    FieldBytes <- McFieldBytes
    NormTable <- McNormTable
INVARIANT EmitConfig
CHECK_DEADLOCK FALSE
