SPECIFICATION Spec
CONSTANTS
    Catalogue <- McCatalogue
    MaxSegs = 2
    Dev = {}
    FieldBytes <- McFieldBytes
    NormOf <- McNormOf
INVARIANT EmitConfig
CHECK_DEADLOCK FALSE
