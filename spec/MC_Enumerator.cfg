SPECIFICATION Spec
CONSTANTS
    NSegs = 3
    Terms = {0, 1, 2}
    Dev = {}
INVARIANT Complete
PROPERTY Terminates
CHECK_DEADLOCK FALSE
