SPECIFICATION Spec
CONSTANTS
    NBlocks = 2
    FieldTerms <- McFieldTerms
    ListChunks = 2
    DvFields = {1, 3}
    Dev = {"CacheFailedDict"}
INVARIANT AllInv
PROPERTY Terminates
CHECK_DEADLOCK FALSE
