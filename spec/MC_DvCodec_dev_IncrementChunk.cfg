SPECIFICATION Spec
CONSTANTS
    NDocs = 7
    CS = 2
    Dev = {"IncrementChunk"}
INVARIANT Delivered
CHECK_DEADLOCK FALSE
