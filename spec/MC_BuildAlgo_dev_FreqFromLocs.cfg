SPECIFICATION Spec
CONSTANTS
    Catalogue <- BuildCatalogue
    Dev = {"FreqFromLocs"}
    FieldBytes <- McFieldBytes
    NormOf <- McNormOf
INVARIANT AllRefine
CHECK_DEADLOCK FALSE
