SPECIFICATION Spec
CONSTANTS
    Catalogue <- BuildCatalogue
    Dev = {"FreqFromLocs"}
    FieldBytes <- McFieldBytes
    NormTable <- McNormTable
INVARIANT AllRefine
CHECK_DEADLOCK FALSE
