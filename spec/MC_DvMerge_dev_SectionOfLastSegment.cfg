SPECIFICATION Spec
CONSTANTS
    NSegs = 2
    MaxDocs = 2
    Dev = {"SectionOfLastSegment"}
INVARIANT AllRight
CHECK_DEADLOCK FALSE
