------------------------------ MODULE IceAlgebra ------------------------------
(***************************************************************************)
(* Sanity of Level A itself (IceData), checked by TLC on the MergeAlgo     *)
(* catalogue: the algebra that C17 demands of the implementation must      *)
(* first hold of the specification, and the linear cursor formulation used *)
(* in trace validation (ScanFrom) must agree with the definitional         *)
(* IterAdvance.                                                            *)
(***************************************************************************)
EXTENDS MergeAlgo

D == [i \in DOMAIN sel |-> drops[i]]

\* all at once
All == Merge(Cs, D)

\* order preserving grouping [1..s) [s..n], deletions applied at the first level
Grouped(s) ==
    LET left  == Merge(SubSeq(Cs, 1, s), SubSeq(D, 1, s))
        right == Merge(SubSeq(Cs, s + 1, Len(Cs)), SubSeq(D, s + 1, Len(Cs)))
    IN Merge(<<left, right>>, <<{}, {}>>)

\* the left group is merged WITHOUT its deletions; they are applied later, translated through the map
LateDrops(s) ==
    LET lcs   == SubSeq(Cs, 1, s)
        none  == [i \in 1..s |-> {}]
        left0 == Merge(lcs, none)
        map0  == DocNumMap(lcs, none)
        tr    == TranslateDrops(map0, SubSeq(D, 1, s))
    IN Merge(<<left0>> \o SubSeq(Cs, s + 1, Len(Cs)), <<tr>> \o SubSeq(D, s + 1, Len(Cs)))

Associative == \A s \in 1..(Len(sel) - 1) : SameDocs(All, Grouped(s))
DropsCommute == \A s \in 1..(Len(sel) - 1) : SameDocs(All, LateDrops(s))
Identity == SameDocs(All, Merge(<<All>>, <<{}>>)) /\ Merge(<<All>>, <<{}>>).origin = "merged"
StatsIdentity == \A f \in RangeOf(All.fields) : Stats(All, f) = Stats(Merge(<<All>>, <<{}>>), f)
MapBijective ==
    LET m == DocNumMap(Cs, D)
        live == {<<i, k>> : i \in DOMAIN m, k \in 1..3} IN
    LET vals == {m[p[1]][p[2]] : p \in {q \in live : q[2] <= Len(m[q[1]]) /\ m[q[1]][q[2]] # Dropped}} IN
    vals = 0..(Len(All.docs) - 1)

\* ScanFrom (linear cursor) agrees with IterAdvance (definition) on every postings list of the merged content
CursorAgrees ==
    \A f \in RangeOf(All.fields) : \A t \in TermSet(All, f) :
        LET list == Postings(All, f, t)
            actual == ListDocs(list) \ {0} IN
        \A i \in 0..Len(list) : \A d \in 0..(Len(All.docs) + 1) :
            LET last == IF i = 0 THEN -1 ELSE list[i].doc
                a == IterAdvance(list, actual, last, d)
                j == ScanFrom(list, actual, i + 1, d)
            IN IF a.kind = "end" THEN j = 0 ELSE (j # 0 /\ list[j] = a.p)

InitAlg ==
    /\ sel \in UNION {[1..n -> {1, 2, 3, 4, 6}] : n \in 2..3}
    /\ drops \in [DOMAIN sel -> {{}, {0}, {1}, {0, 1}}]
    /\ \A i \in DOMAIN sel : drops[i] \subseteq 0..(Len(Catalogue[sel[i]]) - 1)
SpecAlg == InitAlg /\ [][Next]_vars
InitAlgQuick == InitAlg /\ Len(sel) = 2
SpecAlgQuick == InitAlgQuick /\ [][Next]_vars

=============================================================================
