------------------------------ MODULE MatchLoop ------------------------------
(***************************************************************************)
(* Level I: Segment.DocsMatchingTerms (segment.go) - C18.                  *)
(*                                                                         *)
(* The loop keeps the dictionary of the previous term's field and looks    *)
(* it up again only when the field changes; unknown fields have no         *)
(* dictionary (nil) and must contribute nothing.  The model runs the loop  *)
(* over every list of up to MaxTerms (field, term) pairs drawn from known  *)
(* fields, an unknown field and the empty field name, and compares the     *)
(* result with the union Level A prescribes.                               *)
(* Deviations: "NoNilCheck" (pinned: nil dictionary dereferenced),         *)
(* "NoFirstLookup" (pinned: no lookup when the first field is ""),         *)
(* "RememberOnlyResolved" (lastField only updated when the field exists),  *)
(* "OverCountSkip" (a saturation shortcut fed by an over-counting OrInto).  *)
(***************************************************************************)
EXTENDS Integers, Sequences, FiniteSets, TLC

CONSTANTS Known,        \* known field names
          Unknown,      \* an unknown field name
          Terms,        \* term names
          Index,        \* function: <<field, term>> -> set of documents (for known fields)
          MaxTerms, Dev

Fields == Known \cup {Unknown, ""}
Pairs == Fields \X Terms

VARIABLES list, res
vars == <<list, res>>

DictOf(f) == IF f \in Known THEN f ELSE "nil"       \* s.dictionary(field)

\* state of the loop: [last: lastField, dict: cached dictionary, acc: bitmap, crash: BOOLEAN]
RECURSIVE Loop(_, _)
Loop(i, st) ==
    IF i > Len(list) \/ st.crash THEN st
    ELSE LET f == list[i][1]  t == list[i][2]
             lookup == (IF "NoFirstLookup" \in Dev THEN FALSE ELSE i = 1) \/ f # st.last
             d == IF lookup THEN DictOf(f) ELSE st.dict
             last2 == IF lookup /\ ("RememberOnlyResolved" \notin Dev \/ d # "nil") THEN f ELSE st.last
             \* deviation "OverCountSkip": a per-field hit counter (1 per 1-hit term, even when its document
             \* is already matched) lets the loop skip the rest of a "saturated" field
             hits0 == IF lookup THEN 0 ELSE st.hits
             fieldDocs == IF d = "nil" THEN 0 ELSE Cardinality(UNION {Index[<<d, x>>] : x \in Terms})
             skip == "OverCountSkip" \in Dev /\ d # "nil" /\ hits0 >= fieldDocs /\ fieldDocs > 0
             gain == IF d = "nil" THEN 0
                     ELSE IF Cardinality(Index[<<d, t>>]) = 1 THEN 1                       \* 1-hit: flat 1
                     ELSE Cardinality(Index[<<d, t>>] \ st.acc)
         IN IF d = "nil"
            THEN IF "NoNilCheck" \in Dev THEN [st EXCEPT !.crash = TRUE]
                 ELSE Loop(i + 1, [st EXCEPT !.last = last2, !.dict = d, !.hits = 0])         \* contributes nothing
            ELSE IF skip THEN Loop(i + 1, [st EXCEPT !.last = last2, !.dict = d, !.hits = hits0])
            ELSE Loop(i + 1, [last |-> last2, dict |-> d, acc |-> st.acc \cup Index[<<d, t>>], crash |-> FALSE,
                              hits |-> hits0 + gain])

Run == Loop(1, [last |-> "", dict |-> "nil", acc |-> {}, crash |-> FALSE, hits |-> 0])

Init == /\ list \in UNION {[1..n -> Pairs] : n \in 0..MaxTerms}
        /\ res = "pending"
Next == UNCHANGED vars
Spec == Init /\ [][Next]_vars

Expected == UNION {IF list[i][1] \in Known THEN Index[<<list[i][1], list[i][2]>>] ELSE {} : i \in DOMAIN list}
NoCrash == ~Run.crash
ExactUnion == ~Run.crash => Run.acc = Expected

McIndex == [p \in {"a", "b"} \X {"x", "y", "z"} |->
              IF p = <<"a", "x">> THEN {0, 1} ELSE IF p = <<"a", "y">> THEN {2}
              ELSE IF p = <<"b", "x">> THEN {1} ELSE IF p = <<"b", "y">> THEN {1, 3} ELSE {}]

=============================================================================
