SPECIFICATION Spec
CONSTANTS
    N = 5
    ChunkSizes = {1, 2, 3, 5}
    MaxOps = 100
    Dev = {}
VIEW view
INVARIANTS NoCrash RightDoc RightEntries EndSticky
CHECK_DEADLOCK FALSE
