--------------------------- MODULE FreqNormStream ---------------------------
(***************************************************************************)
(* Level I: the freq/norm stream of one chunk of a postings list at BYTE   *)
(* level (intcoder.go chunkedIntCoder.Add -> binary.PutUvarint,            *)
(* intdecoder.go readUvarint / SkipUvarint, posting.go                     *)
(* encodeFreqHasLocs, readFreqNormHasLocs, skipFreqNormReadHasLocs) - C01, *)
(* C05.                                                                    *)
(*                                                                         *)
(* Every posting contributes two uvarints: freq<<1 | hasLocs and the norm  *)
(* bits.  A uvarint is a run of bytes with the top bit set followed by one *)
(* byte without it; the payload is 7 bits per byte, least significant      *)
(* group first - so a value whose low 7 bits are zero (a frequency that is *)
(* a multiple of 64 on a posting without locations) starts with the byte   *)
(* 0x80, which carries no payload at all.  A posting that is returned is   *)
(* decoded with two readUvarint calls; a posting that is stepped over      *)
(* (Advance, exclusions) needs only its hasLocs bit: the first varint is   *)
(* decoded, the second skipped byte by byte.                               *)
(*                                                                         *)
(* Checked for every list of up to MaxPostings postings with frequencies   *)
(* and norms on both sides of the 1/2/3-byte boundaries and on the         *)
(* payload-free first byte, and every read/skip pattern: the reader stays  *)
(* on entry boundaries, a read returns the posting's own (freq, hasLocs,   *)
(* norm), a skip reports the posting's own hasLocs.                        *)
(*                                                                         *)
(* Deviations: "PeekFirstByte" (the skip does not decode the first varint: *)
(* it takes hasLocs from the first byte and skips the rest only            *)
(* `if b > 0x80` - seeded C05-m), "SkipOneByteNorm" (the norm is stepped   *)
(* over as a single byte), "HasLocsFromFreq" (hasLocs taken from bit 1).   *)
(***************************************************************************)
EXTENDS Integers, Sequences, FiniteSets, TLC, SequencesExt

CONSTANTS Freqs, Norms, MaxPostings, Dev

Entry == [freq : Freqs, hasLocs : BOOLEAN, norm : Norms]

\* binary.PutUvarint
RECURSIVE Uvarint(_)
Uvarint(x) == IF x < 128 THEN <<x>> ELSE <<128 + (x % 128)>> \o Uvarint(x \div 128)

Encode(e) == Uvarint(2 * e.freq + (IF e.hasLocs THEN 1 ELSE 0)) \o Uvarint(e.norm)
Stream(es) == FoldLeft(LAMBDA acc, e : acc \o Encode(e), <<>>, es)

\* binary.Uvarint at offset o (0-based): <<value, bytes consumed>>; consumed = 0: ran off the end
RECURSIVE ReadFrom(_, _, _, _)
ReadFrom(s, o, shift, acc) ==
    IF o >= Len(s) THEN <<0, 0>>
    ELSE LET b == s[o + 1] IN
         IF b < 128 THEN <<acc + b * shift, 1>>
         ELSE LET r == ReadFrom(s, o + 1, shift * 128, acc + (b - 128) * shift) IN
              IF r[2] = 0 THEN r ELSE <<r[1], r[2] + 1>>
ReadUvarint(s, o) == ReadFrom(s, o, 1, 0)

\* SkipUvarint: step over bytes until one without the continuation bit
RECURSIVE SkipFrom(_, _)
SkipFrom(s, o) == IF o >= Len(s) THEN 0 ELSE IF s[o + 1] < 128 THEN 1 ELSE LET k == SkipFrom(s, o + 1) IN IF k = 0 THEN 0 ELSE k + 1

VARIABLES cfg,    \* [es : Seq(Entry), plan : Seq({"read", "skip"})]
          k,      \* next posting
          off,    \* reader offset (bytes)
          ok
vars == <<cfg, k, off, ok>>

\* skipFreqNormReadHasLocs: <<hasLocs, new offset, fine>>
Skip(s, o) ==
    IF "PeekFirstByte" \in Dev
    THEN IF o >= Len(s) THEN <<FALSE, o, FALSE>>
         ELSE LET b == s[o + 1]
                  rest == IF b > 128 THEN SkipFrom(s, o) ELSE 1           \* "if b > lastByte": 0x80 itself passes for terminal
                  n == SkipFrom(s, o + rest)
              IN <<b % 2 = 1, o + rest + n, rest # 0 /\ n # 0>>
    ELSE LET r == ReadUvarint(s, o)
             n == IF "SkipOneByteNorm" \in Dev THEN 1 ELSE SkipFrom(s, o + r[2])
             bit == IF "HasLocsFromFreq" \in Dev THEN (r[1] \div 2) % 2 = 1 ELSE r[1] % 2 = 1
         IN <<bit, o + r[2] + n, r[2] # 0 /\ n # 0>>

Step ==
    /\ k <= Len(cfg.es)
    /\ LET s == Stream(cfg.es)
           e == cfg.es[k]
       IN IF cfg.plan[k] = "read"
          THEN LET a == ReadUvarint(s, off)
                   b == ReadUvarint(s, off + a[2])
               IN /\ off' = off + a[2] + b[2]
                  /\ ok' = (ok /\ a[2] # 0 /\ b[2] # 0 /\ a[1] \div 2 = e.freq /\ (a[1] % 2 = 1) = e.hasLocs /\ b[1] = e.norm)
          ELSE LET r == Skip(s, off)
               IN /\ off' = r[2]
                  /\ ok' = (ok /\ r[3] /\ r[1] = e.hasLocs)
    /\ k' = k + 1
    /\ UNCHANGED cfg

Init ==
    /\ cfg \in {c \in [es : UNION {[1..n -> Entry] : n \in 1..MaxPostings},
                       plan : UNION {[1..n -> {"read", "skip"}] : n \in 1..MaxPostings}] : Len(c.es) = Len(c.plan)}
    /\ k = 1 /\ off = 0 /\ ok = TRUE

Spec == Init /\ [][Step]_vars

Aligned == ok
Consumed == k > Len(cfg.es) => (ok => off = Len(Stream(cfg.es)))
AllInv == Aligned /\ Consumed

=============================================================================
