SPECIFICATION Spec
CONSTANTS
    Known = {"a", "b"}
    Unknown = "u"
    Terms = {"x", "y", "z"}
    Index <- McIndex
    MaxTerms = 3
    Dev = {"OverCountSkip"}
INVARIANTS NoCrash ExactUnion
CHECK_DEADLOCK FALSE
