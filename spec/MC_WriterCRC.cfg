SPECIFICATION CrcSpec
CONSTANTS
    MaxSteps = 5
    Dev = {}
INVARIANTS CrcCoversFile RePersistIdentity
CHECK_DEADLOCK FALSE
