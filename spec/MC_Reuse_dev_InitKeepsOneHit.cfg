SPECIFICATION Spec
CONSTANTS
    Docs = {0, 1, 2}
    MaxLookups = 3
    Dev = {"InitKeepsOneHit"}
INVARIANTS CountRight IterRight NoCrash FirstRight SharedStaysEmpty
CHECK_DEADLOCK FALSE
