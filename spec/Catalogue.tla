------------------------------ MODULE Catalogue ------------------------------
(***************************************************************************)
(* A catalogue of tiny batches shared by the models that need concrete     *)
(* inputs (MergeAlgo, IceAlgebra, GenAPI): shared and disjoint terms, the  *)
(* empty term, differing field lists, stored values, doc values, composite *)
(* locations, repeated field instances, an empty batch, a document without *)
(* fields, a singleton term with frequency 2.                              *)
(***************************************************************************)
EXTENDS IceData

(* a catalogue of tiny batches: shared and disjoint terms, the empty term, differing field lists,
   stored values, doc values, composite locations, repeated field instances *)

T(b) == <<b>>
Occ(t, fr, ls) == [term |-> t, freq |-> fr, locs |-> ls]
L(f, p) == [field |-> f, pos |-> p, start |-> p, end |-> p + 1]
Inst(n, ts, st, v, dv) ==
    [name |-> n, len |-> SumSeq([k \in DOMAIN ts |-> ts[k].freq]), stored |-> st, value |-> v, dv |-> dv, terms |-> ts]
Id(k) == Inst("_id", <<Occ(T(48 + k), 1, <<>>)>>, TRUE, T(48 + k), FALSE)

McCatalogue == <<
    \* 1: two documents, fields _id + a, a shared term with locations and a singleton
    << <<Id(0), Inst("a", <<Occ(T(120), 2, <<L("", 1), L("_id", 2)>>), Occ(T(121), 1, <<>>)>>, TRUE, T(1), TRUE)>>,
       <<Id(1), Inst("a", <<Occ(T(120), 1, <<>>)>>, FALSE, <<>>, TRUE)>> >>,
    \* 2: same field list as 1 (copy path), the empty term, a repeated field instance
    << <<Id(2), Inst("a", <<Occ(<<>>, 1, <<>>), Occ(T(120), 1, <<L("", 3)>>)>>, TRUE, T(2), TRUE),
              Inst("a", <<Occ(T(120), 2, <<>>)>>, TRUE, T(3), TRUE)>> >>,
    \* 3: a different field list (b sorts after a): forces the re-encode path
    << <<Id(3), Inst("b", <<Occ(T(120), 1, <<>>)>>, TRUE, T(4), FALSE)>>,
       <<Inst("b", <<Occ(T(122), 3, <<L("", 1)>>)>>, FALSE, <<>>, FALSE)>> >>,
    \* 4: fields _id a b, a document without any field
    << <<>>, <<Id(4), Inst("a", <<Occ(T(121), 1, <<>>)>>, TRUE, T(5), TRUE), Inst("b", <<Occ(T(120), 1, <<>>)>>, TRUE, T(6), FALSE)>> >>,
    \* 5: the empty batch
    << >>,
    \* 6: field list _id a c : diverges from 4 after a common prefix
    << <<Id(5), Inst("a", <<Occ(T(120), 1, <<>>)>>, TRUE, T(7), TRUE), Inst("c", <<Occ(T(120), 1, <<>>)>>, TRUE, T(8), FALSE)>> >>,
    \* 7: a singleton term with frequency 2 and no locations (must not be 1-hit encoded)
    << <<Id(6), Inst("a", <<Occ(T(125), 2, <<>>)>>, FALSE, <<>>, TRUE)>> >>
>>

McFields == {"_id", "a", "b", "c"}
McFieldBytes == ("_id" :> <<95, 105, 100>>) @@ ("a" :> <<97>>) @@ ("b" :> <<98>>) @@ ("c" :> <<99>>)
McNormTable == [f \in McFields |-> [i \in 1..25 |-> <<f, i - 1>>]]      \* the norm key itself: injective

=============================================================================
