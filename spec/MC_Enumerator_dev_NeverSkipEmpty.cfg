SPECIFICATION Spec
CONSTANTS
    NSegs = 3
    Terms = {0, 1, 2}
    Dev = {"NeverSkipEmpty"}
INVARIANT Complete
PROPERTY Terminates
CHECK_DEADLOCK FALSE
