SPECIFICATION Spec
CONSTANTS
    Terms = {0, 1}
    SegDocs <- McSegDocs21
    Dev = {"FoldedCondition"}
INVARIANT AllRight
CHECK_DEADLOCK FALSE
