------------------------------ MODULE MergeReads ------------------------------
(***************************************************************************)
(* Level I: a merge seen as the sequence of storage reads it performs on   *)
(* ONE file-backed input, and what each call site does when a read fails   *)
(* (merge.go mergeStoredAndRemap, setupActiveForField / Segment.dictionary,*)
(* postingsListFromOffset, mergeTermFreqNormLocs -> PostingsIterator.Next  *)
(* -> loadChunk, buildMergedDocVals -> iterateAllDocValues) - C03, C19.    *)
(*                                                                         *)
(* The merge is a list of SITES in program order.  A site needs a number   *)
(* of reads and, if all succeed, contributes one ITEM to the output (a     *)
(* stored block, a field's dictionary, a term's postings of one chunk, a   *)
(* field's doc values).  The storage fails at the K-th read of the run:    *)
(* for that read only ("once") or from then on ("after").  Every site      *)
(* returns the error to its caller and the merge ends with it; the only    *)
(* state the input keeps between merges is the set of dictionaries it has  *)
(* loaded (Segment.fieldFSTs), filled on success only.                     *)
(*                                                                         *)
(* Two merges run one after the other on the same input: the first under   *)
(* the fault, the second on healthy storage (after a transient fault) - or *)
(* on the same failing storage.                                            *)
(*                                                                         *)
(* Invariants: a merge that reports success wrote every item               *)
(* (SuccessIsComplete); a fault that hit a read is reported by that merge  *)
(* (FaultReported); the second merge on healthy storage succeeds and is    *)
(* complete whatever the first one left behind (InputStaysUsable).         *)
(*                                                                         *)
(* Deviations: "DropFirstNextErr" (the error of a postings list's FIRST    *)
(* chunk load is dropped, the list contributes nothing - seeded C19-j),    *)
(* "SwallowDvErr" (a failed doc-value chunk read delivers nothing and the  *)
(* pass goes on - seeded C07-j), "CacheFailedDict" (a dictionary whose     *)
(* load failed is remembered as loaded and empty).                         *)
(*                                                                         *)
(* The same space is executed on the code by `merge_fsweep` (every read of *)
(* a real merge as failure point, judged by IceAPI!AMergeFSweep) and       *)
(* `fault_then_merge`.                                                     *)
(***************************************************************************)
EXTENDS Integers, Sequences, FiniteSets, TLC, SequencesExt

CONSTANTS NBlocks,      \* stored blocks of the input
          FieldTerms,   \* sequence: number of terms of each field (0 = a field without terms)
          ListChunks,   \* chunks per postings list (1 or 2)
          DvFields,     \* set of field indexes that have doc values
          Dev

Fields == DOMAIN FieldTerms

\* the sites of one merge, in program order
SitesOf ==
    LET stored == [b \in 1..NBlocks |-> [kind |-> "stored", reads |-> 1, item |-> <<"stored", b>>, field |-> 0]]
        fieldSites(f) ==
            <<[kind |-> "dict", reads |-> 1, item |-> <<"dict", f>>, field |-> f]>>
            \o FoldLeft(LAMBDA acc, t :
                    acc \o <<[kind |-> "plhead", reads |-> 2, item |-> <<"head", f, t>>, field |-> f]>>       \* header + bitmap
                        \o [c \in 1..ListChunks |->
                               [kind |-> IF c = 1 THEN "chunk1" ELSE "chunkN", reads |-> 2,                     \* freq/norm chunk + location chunk
                                item |-> <<"post", f, t, c>>, field |-> f]],
                    <<>>, [t \in 1..FieldTerms[f] |-> t])
            \o (IF f \in DvFields /\ FieldTerms[f] > 0
                THEN <<[kind |-> "dv", reads |-> 2, item |-> <<"dv", f>>, field |-> f]>> ELSE <<>>)
    IN stored \o FoldLeft(LAMBDA acc, f : acc \o fieldSites(f), <<>>, [f \in Fields |-> f])

AllItems == {SitesOf[i].item : i \in DOMAIN SitesOf}
TotalReads == FoldLeft(LAMBDA acc, s : acc + s.reads, 0, SitesOf)

VARIABLES fault,    \* [K, mode, second]: read K of the FIRST merge fails ("once" / "after"); second \in {"healthy", "same"}
          merge,    \* 1 or 2
          pc,       \* index of the next site
          nread,    \* reads performed by the storage so far (over both merges)
          hit,      \* the fault has hit a read of the current merge
          out,      \* items written by the current merge
          cache,    \* fields whose dictionary the input has cached: field -> "ok" / "empty"
          results   \* results of the merges finished so far: Seq([res, out, hit])
vars == <<fault, merge, pc, nread, hit, out, cache, results>>

\* does the n-th read of the storage (1-based, counted over both merges) fail?
Fails(n) ==
    \/ fault.mode = "once" /\ n = fault.K
    \/ fault.mode = "after" /\ n >= fault.K /\ (merge = 1 \/ fault.second = "same")

\* the reads of a site: <<reads performed, failed>>
ReadsOf(s, from) ==
    LET bad == {i \in 1..s.reads : Fails(from + i)}
    IN IF bad = {} THEN <<s.reads, FALSE>>
       ELSE <<CHOOSE i \in bad : \A j \in bad : i <= j, TRUE>>          \* stops at the first failing read

EndMerge(res, o, h) ==
    /\ results' = Append(results, [res |-> res, out |-> o, hit |-> h])
    /\ merge' = merge + 1 /\ pc' = 1 /\ out' = {} /\ hit' = FALSE

Step ==
    /\ merge <= 2 /\ pc <= Len(SitesOf)
    /\ LET s == SitesOf[pc]
           known == s.field \in DOMAIN cache                                 \* Segment.dictionary: served from fieldFSTs
           asEmpty == known /\ cache[s.field] = "empty"                       \* (only under "CacheFailedDict")
           r == IF known THEN (IF s.kind = "dict" THEN <<0, FALSE>> ELSE ReadsOf(s, nread)) ELSE ReadsOf(s, nread)
       IN IF asEmpty
          THEN \* a dictionary remembered as empty: the field is not in focus, none of its sites is visited
               /\ pc' = pc + 1
               /\ UNCHANGED <<merge, nread, hit, out, cache, results>>
          ELSE /\ nread' = nread + r[1]
               /\ IF ~r[2]
                  THEN /\ out' = out \cup {s.item}
                       /\ cache' = IF s.kind = "dict" /\ ~known
                                   THEN [f \in DOMAIN cache \cup {s.field} |-> IF f = s.field THEN "ok" ELSE cache[f]] ELSE cache
                       /\ pc' = pc + 1
                       /\ UNCHANGED <<merge, hit, results>>
                  ELSE \* a read of this site failed
                       IF \/ (s.kind = "chunk1" /\ "DropFirstNextErr" \in Dev)
                          \/ (s.kind = "dv" /\ "SwallowDvErr" \in Dev)
                       THEN /\ pc' = pc + 1 /\ hit' = TRUE                   \* nothing written for the item, the merge goes on
                            /\ UNCHANGED <<merge, out, cache, results>>
                       ELSE /\ cache' = IF s.kind = "dict" /\ "CacheFailedDict" \in Dev
                                        THEN [f \in DOMAIN cache \cup {s.field} |-> IF f = s.field THEN "empty" ELSE cache[f]]
                                        ELSE cache
                            /\ EndMerge("err", out, TRUE)
    /\ UNCHANGED fault

Finish ==
    /\ merge <= 2 /\ pc = Len(SitesOf) + 1
    /\ EndMerge("nil", out, hit)
    /\ UNCHANGED <<fault, nread, cache>>

Init ==
    /\ fault \in [K : 1..(TotalReads + 1), mode : {"once", "after"}, second : {"healthy", "same"}]
    /\ merge = 1 /\ pc = 1 /\ nread = 0 /\ hit = FALSE /\ out = {} /\ cache = <<>> /\ results = <<>>

Next == Step \/ Finish
Spec == Init /\ [][Next]_vars /\ WF_vars(Next)

-----------------------------------------------------------------------------

\* C03 / C19: success means the complete output
SuccessIsComplete == \A i \in DOMAIN results : results[i].res = "nil" => results[i].out = AllItems
\* C19: a merge one of whose reads failed reports it
FaultReported == \A i \in DOMAIN results : results[i].hit => results[i].res = "err"
\* C19 (the segment stays usable): on healthy storage the second merge succeeds completely
InputStaysUsable ==
    (Len(results) = 2 /\ results[1].hit /\ (fault.mode = "once" \/ fault.second = "healthy"))
        => (results[2].res = "nil" /\ results[2].out = AllItems)
\* no fault, no failure
HealthySucceeds == (Len(results) >= 1 /\ fault.K > TotalReads) => results[1].res = "nil"
Terminates == <>(merge = 3)

AllInv == SuccessIsComplete /\ FaultReported /\ InputStaysUsable /\ HealthySucceeds

McFieldTerms == <<2, 0, 1>>

=============================================================================
