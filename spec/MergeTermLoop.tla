---------------------------- MODULE MergeTermLoop ----------------------------
(***************************************************************************)
(* Level I: the per-field term loop of the merger (merge.go                *)
(* persistMergedRestField, prepareNewTerm, finishTerm,                     *)
(* mergeTermFreqNormLocs) as a state machine - C02, C08, C17.              *)
(*                                                                         *)
(* The enumerator delivers (term, segment) pairs in ascending order.  The  *)
(* loop keeps, across iterations:                                          *)
(*   prevTerm       nil at first; compared with bytes.Equal, for which a   *)
(*                  nil slice EQUALS the empty term - and stays nil after   *)
(*                  the empty term was copied into it                      *)
(*   newRoaring     new document numbers collected for the current term    *)
(*   tf/loc coder   entries of the current term, written with the chunk    *)
(*                  size prepareNewTerm chose from the term's live         *)
(*                  cardinality over ALL segments that have the term        *)
(*   last*          doc, freq, norm of the last posting of the LAST        *)
(*                  (term, segment) pair processed - zero when that pair    *)
(*                  had no live posting                                     *)
(* finishTerm writes the term iff a posting survived; it chooses the 1-hit *)
(* encoding (doc number and norm inside the dictionary value, frequency 1  *)
(* implied) iff exactly one posting, no locations, and last* describe it.  *)
(*                                                                         *)
(* Readers derive the chunk size from the cardinality of the WRITTEN       *)
(* bitmap, so the chunk size used while encoding must be the one of the    *)
(* final cardinality; a 1-hit value must read back as the posting it       *)
(* replaces.  Checked for every small configuration of terms (including    *)
(* the empty term), postings, deletions and segments.                      *)
(***************************************************************************)
EXTENDS Integers, Sequences, FiniteSets, TLC, SequencesExt, Json

CONSTANTS Terms,         \* subset of 0..k; 0 stands for the empty term
          SegDocs,       \* sequence: number of documents of each input segment
          Dev

Nil == -1
Segs == DOMAIN SegDocs
Attr == {[freq |-> 1, norm |-> 1, locs |-> FALSE], [freq |-> 2, norm |-> 1, locs |-> FALSE], [freq |-> 1, norm |-> 2, locs |-> TRUE]}
Absent == [freq |-> 0, norm |-> 0, locs |-> FALSE]

\* chunk-size class of a cardinality (stands for the 1024 steps of the default chunk mode)
ChunkOf(card) == IF card >= 2 THEN "big" ELSE "small"

VARIABLES cfg,      \* [post : Segs -> [Terms -> [doc -> Attr \cup {Absent}]], drops : Segs -> SUBSET doc]
          pos,      \* index into Pairs of the pair being processed
          prev,     \* prevTerm: Nil or a term
          roar,     \* set of new document numbers of the current term
          entries,  \* Seq([doc, freq, norm, locs, chunk]): what the coders hold
          last,     \* [doc, freq, norm]
          chunk,    \* chunk class the coders are set to ("none" before the first prepareNewTerm)
          out       \* Seq of written terms
vars == <<cfg, pos, prev, roar, entries, last, chunk, out>>

DocsOf(s) == 0..(SegDocs[s] - 1)
HasTerm(s, t) == \E d \in DocsOf(s) : cfg.post[s][t][d] # Absent          \* the input dictionary lists t
Pairs == SortSeq(SetToSeq({<<t, s>> \in Terms \X Segs : HasTerm(s, t)}),
                 LAMBDA a, b : a[1] < b[1] \/ (a[1] = b[1] /\ a[2] < b[2]))

\* new document number of (segment, doc): survivors numbered consecutively in segment order
NewNum(s, d) ==
    Cardinality({<<s2, d2>> \in UNION {{<<x, y>> : y \in DocsOf(x) \ cfg.drops[x]} : x \in Segs} :
                    s2 < s \/ (s2 = s /\ d2 < d)})

Live(s, t) == {d \in DocsOf(s) : cfg.post[s][t][d] # Absent /\ d \notin cfg.drops[s]}

\* bytes.Equal(prevTerm, term): a nil slice equals the empty term
Equal(p, t) == p = t \/ (p = Nil /\ t = 0)

ZeroLast == [doc |-> 0, freq |-> 0, norm |-> 0]

-----------------------------------------------------------------------------
(* finishTerm *)

OneHit(r, es, l) ==
    /\ Cardinality(r) = 1
    /\ \A k \in DOMAIN es : ~es[k].locs
    /\ (CHOOSE d \in r : TRUE) = l.doc
    /\ (l.freq = 1 \/ ("OneHitLeq" \in Dev /\ l.freq <= 1))

Finished(term, r, es, l, o) ==
    IF r = {} THEN o                                     \* nothing survived: the term is not inserted
    ELSE Append(o, [term |-> IF term = Nil THEN 0 ELSE term,     \* a nil key IS the empty key for the FST builder
                    docs |-> r,
                    onehit |-> OneHit(r, es, l),
                    norm1 |-> l.norm,
                    entries |-> es])

-----------------------------------------------------------------------------
(* prepareNewTerm *)

PreparedChunk(t) ==
    LET withT == {s \in Segs : HasTerm(s, t)}
        cnt(s) == IF "CardCountsDropped" \in Dev
                  THEN Cardinality({d \in DocsOf(s) : cfg.post[s][t][d] # Absent})
                  ELSE Cardinality(Live(s, t))
        card == FoldLeft(LAMBDA acc, s : acc + cnt(s), 0, SetToSortSeq(withT, <))
    IN ChunkOf(card)

-----------------------------------------------------------------------------
(* one iteration of the loop *)

Iterate ==
    /\ pos <= Len(Pairs)
    /\ LET t == Pairs[pos][1]
           s == Pairs[pos][2]
           changed == ~Equal(prev, t)
           \* 1. the term changed: write what was collected for the previous term
           o1 == IF changed THEN Finished(prev, roar, entries, last, out) ELSE out
           r1 == IF changed THEN {} ELSE roar
           e1 == IF changed THEN <<>> ELSE entries
           \* 2. prepareNewTerm - also when prevTerm is still nil (the first pair of the field)
           prep == IF "FoldedCondition" \in Dev THEN changed ELSE changed \/ prev = Nil
           c1 == IF prep THEN PreparedChunk(t) ELSE chunk
           \* 3. mergeTermFreqNormLocs over the live postings of (t, s)
           ds == SetToSortSeq(Live(s, t), <)
           add == [k \in DOMAIN ds |-> LET a == cfg.post[s][t][ds[k]] IN
                                       [doc |-> NewNum(s, ds[k]), freq |-> a.freq, norm |-> a.norm, locs |-> a.locs, chunk |-> c1]]
           l1 == IF ds = <<>> THEN ZeroLast
                 ELSE [doc |-> add[Len(add)].doc, freq |-> add[Len(add)].freq, norm |-> add[Len(add)].norm]
       IN /\ out' = o1
          /\ roar' = r1 \cup {add[k].doc : k \in DOMAIN add}
          /\ entries' = e1 \o add
          /\ chunk' = c1
          /\ last' = l1
          \* 4. prevTerm = append(prevTerm[:0], term...): stays nil when it was nil and the term is empty
          /\ prev' = IF prev = Nil /\ t = 0 THEN Nil ELSE t
    /\ pos' = pos + 1
    /\ UNCHANGED cfg

Finish ==
    /\ pos = Len(Pairs) + 1
    /\ out' = Finished(prev, roar, entries, last, out)
    /\ roar' = {} /\ entries' = <<>> /\ last' = ZeroLast
    /\ pos' = pos + 1
    /\ UNCHANGED <<cfg, prev, chunk>>

\* (the candidate set is built from the per-segment function sets: a set of functions over every possible document
\*  range, filtered afterwards, has 20^(terms x segments) members and is never enumerated to the end)
PostOf(s) == [Terms -> [DocsOf(s) -> Attr \cup {Absent}]]
Init ==
    /\ cfg \in [post : [Segs -> UNION {PostOf(s) : s \in Segs}],
                drops : [Segs -> UNION {SUBSET DocsOf(s) : s \in Segs}]]
    /\ \A s \in Segs : /\ cfg.post[s] \in PostOf(s)
                       /\ cfg.drops[s] \subseteq DocsOf(s)
    /\ pos = 1 /\ prev = Nil /\ roar = {} /\ entries = <<>> /\ last = ZeroLast /\ chunk = "none" /\ out = <<>>

Next == Iterate \/ Finish
Spec == Init /\ [][Next]_vars

-----------------------------------------------------------------------------
(* What must have been written (Level A seen through this abstraction) *)

Done == pos = Len(Pairs) + 2

ExpectedOf(t) ==      \* the postings of t in the merged segment, ascending
    LET ps == {<<s, d>> \in UNION {{<<x, y>> : y \in Live(x, t)} : x \in Segs} : TRUE}
        sorted == SetToSortSeq({NewNum(p[1], p[2]) : p \in ps}, <)
        src(n) == CHOOSE p \in ps : NewNum(p[1], p[2]) = n
    IN [k \in DOMAIN sorted |-> LET a == cfg.post[src(sorted[k])[1]][t][src(sorted[k])[2]] IN
                                [doc |-> sorted[k], freq |-> a.freq, norm |-> a.norm, locs |-> a.locs]]

LiveTerms == SetToSortSeq({t \in Terms : \E s \in Segs : Live(s, t) # {}}, <)

\* what a reader gets from a written term
ReadBack(w) ==
    IF w.onehit THEN <<[doc |-> CHOOSE d \in w.docs : TRUE, freq |-> 1, norm |-> w.norm1, locs |-> FALSE]>>
    ELSE [k \in DOMAIN w.entries |-> [doc |-> w.entries[k].doc, freq |-> w.entries[k].freq,
                                      norm |-> w.entries[k].norm, locs |-> w.entries[k].locs]]

TermsRight    == Done => [k \in DOMAIN out |-> out[k].term] = LiveTerms                              \* C02, C08
PostingsRight == Done => \A k \in DOMAIN out : ReadBack(out[k]) = ExpectedOf(out[k].term)           \* C02, C08
\* the coder's chunk size is the one a reader derives from the written cardinality
ChunksRight   == Done => \A k \in DOMAIN out : ~out[k].onehit =>
                     \A j \in DOMAIN out[k].entries : out[k].entries[j].chunk = ChunkOf(Cardinality(out[k].docs))   \* C02, C17
\* a 1-hit value can only stand for a posting whose norm is not zero (zero norm bits mean "not 1-hit")
OneHitNormSet == Done => \A k \in DOMAIN out : out[k].onehit => out[k].norm1 # 0

AllRight == TermsRight /\ PostingsRight /\ ChunksRight /\ OneHitNormSet

-----------------------------------------------------------------------------
(* E2: random configurations for the real merger (the configuration is drawn by the first step: the simulator
   computes the initial states only once) *)
Pick(S) == RandomElement(S)
RandomCfg(dummy) ==
    [post  |-> [s \in Segs |-> [t \in Terms |-> [d \in DocsOf(s) |-> Pick(Attr \cup {Absent, Absent})]]],
     drops |-> [s \in Segs |-> Pick(SUBSET DocsOf(s))]]
GenInit == /\ cfg = [post |-> <<>>, drops |-> <<>>]
           /\ pos = 1 /\ prev = Nil /\ roar = {} /\ entries = <<>> /\ last = ZeroLast /\ chunk = "none" /\ out = <<>>
GenNext == IF cfg.post = <<>>
           THEN cfg' = RandomCfg(out) /\ UNCHANGED <<pos, prev, roar, entries, last, chunk, out>>
           ELSE Next
GenSpec == GenInit /\ [][GenNext]_vars
Emit == (cfg.post # <<>> /\ Done) =>
            PrintT(<<"BEHAVIOUR", ToJson([post |-> cfg.post, drops |-> [s \in Segs |-> SetToSortSeq(cfg.drops[s], <)],
                                           segdocs |-> SegDocs,
                                           written |-> [k \in DOMAIN out |-> [term |-> out[k].term, onehit |-> out[k].onehit]]])>>)

McSegDocs21 == <<2, 1>>
McSegDocs323 == <<3, 2, 3>>
McSegDocs22 == <<2, 2>>
McSegDocs111 == <<1, 1, 1>>
McSegDocs11 == <<1, 1>>

=============================================================================
