SPECIFICATION GenSpec
CONSTANTS
    FieldIds = {0, 1, 2, 126, 127, 128, 129}
    PosVals = {0, 1, 127, 128, 16383, 16384, 2097151, 2097152}
    StartVals = {0, 127, 128, 300}
    EndVals = {5, 127, 128, 16384, 268435455, 268435456}
    MaxPostings = 5
    MaxLocs = 3
    Dev = {}
INVARIANT Emit
CHECK_DEADLOCK FALSE
