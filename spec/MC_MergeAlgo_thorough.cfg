SPECIFICATION Spec
CONSTANTS
    Catalogue <- McCatalogue
    MaxSegs = 3
    Dev = {}
    FieldBytes <- McFieldBytes
    NormOf <- McNormOf
INVARIANTS RefinesFields RefinesCount RefinesDocNums RefinesTerms RefinesPostings RefinesStored RefinesStats RefinesDocValues
CHECK_DEADLOCK FALSE
