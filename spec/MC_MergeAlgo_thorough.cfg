SPECIFICATION Spec
CONSTANTS
    Catalogue <- McCatalogue
    SelIds = {1, 2, 3, 4, 5, 6, 7}
    MaxSegs = 3
    Dev = {}
    FieldBytes <- McFieldBytes
    NormTable <- McNormTable
INVARIANTS RefinesFields RefinesCount RefinesDocNums RefinesTerms RefinesPostings RefinesStored RefinesStats RefinesDocValues
CHECK_DEADLOCK FALSE
