------------------------------- MODULE DvReader -------------------------------
(***************************************************************************)
(* Level I: a DocumentValueReader over several fields on storage that may  *)
(* fail in the middle of a call (docvalues.go visitDocumentFieldTerms,     *)
(* loadDvChunk, visitDocValues) - C07, C19.                                *)
(*                                                                         *)
(* The reader keeps one per-field reader: the number of the 1024-document  *)
(* chunk it holds (cur), that chunk's header (one entry per document with  *)
(* values: document number and END offset; a document's START offset is    *)
(* the previous entry's end) and the chunk's data.  A visit of document d  *)
(* walks the requested fields in order; a field whose reader does not hold *)
(* chunk(d) loads it: read the entry count, read the entries one by one    *)
(* INTO the header, read the data - every read can fail, the visit then    *)
(* returns the error and the remaining fields are not touched.             *)
(*                                                                         *)
(* Header entries are modelled by the chunk they belong to, so a header    *)
(* that mixes two chunks is visible.  A lookup that lands on an entry of   *)
(* the right chunk whose predecessor belongs to another chunk slices the   *)
(* data from a foreign offset: terms of other documents ("wrong").         *)
(*                                                                         *)
(* Invariants: no visit ever delivers "wrong"; on storage that works again *)
(* a visit that reports success delivered every requested field.           *)
(***************************************************************************)
EXTENDS Integers, Sequences, FiniteSets, TLC

CONSTANTS NFields,       \* fields 1..NFields, all with doc values for every document
          EntriesPer,    \* header entries per chunk (documents with values per chunk)
          MaxVisits,
          Dev

Chunks == {0, 1}
Fields == 1..NFields
None == -1

VARIABLES rd,       \* field -> [cur : chunk or None, hdr : Seq(chunk the entry belongs to), data : chunk or None]
          store,    \* [kind |-> "ok" | "dead" (fails from now on) | "once" (the k-th read from now fails, then healthy), k]
          visits,
          last      \* [chunk, pos, res : field -> "right" | "wrong" | "empty" | "skipped", err : BOOLEAN, healthy : BOOLEAN]
vars == <<rd, store, visits, last>>

Fresh == [cur |-> None, hdr |-> <<>>, data |-> None]
Ok == [kind |-> "ok", k |-> 0]
Dead == [kind |-> "dead", k |-> 0]

Init == /\ rd = [f \in Fields |-> Fresh]
        /\ store = Ok
        /\ visits = 0
        /\ last = [chunk |-> None, pos |-> 0, res |-> [f \in Fields |-> "skipped"], err |-> FALSE, healthy |-> TRUE]

\* the reads of one load: 1 (count) + EntriesPer (entries) + 1 (data); how many succeed under store state s
ReadsOfLoad == EntriesPer + 2
\* outcome of attempting n reads: <<number that succeed, new store state>>
Attempt(s, n) ==
    IF s.kind = "ok" THEN <<n, Ok>>
    ELSE IF s.kind = "dead" THEN <<0, Dead>>
    ELSE IF s.k > n THEN <<n, [kind |-> "once", k |-> s.k - n]>>      \* the failing read lies beyond these
    ELSE <<s.k - 1, Ok>>                                            \* reads 1..k-1 succeed, read k fails, storage recovers

\* loadDvChunk(f, c) with `got` successful reads out of ReadsOfLoad
Loaded(r, c, got) ==
    LET invalidateFirst == "HeaderBeforeInvalidate" \notin Dev     \* the repaired order: nothing is held while loading
        entries == IF got >= 1 THEN (IF got - 1 > EntriesPer THEN EntriesPer ELSE got - 1) ELSE 0
        \* the header is resliced to the new count as soon as the count is read, entries overwritten one by one
        hdr1 == IF got = 0 THEN r.hdr
                ELSE [p \in 1..EntriesPer |-> IF p <= entries THEN c
                                              ELSE IF p <= Len(r.hdr) THEN r.hdr[p] ELSE None]
        full == got = ReadsOfLoad
    IN IF full THEN [cur |-> c, hdr |-> [p \in 1..EntriesPer |-> c], data |-> c]
       ELSE [cur  |-> IF invalidateFirst THEN None ELSE r.cur,
             hdr  |-> hdr1,
             data |-> IF invalidateFirst THEN None ELSE r.data]

\* visitDocValues: the document at header position pos of chunk c
Lookup(r, c, pos) ==
    IF r.data # c \/ pos > Len(r.hdr) \/ r.hdr[pos] # c THEN "empty"
    ELSE IF pos > 1 /\ r.hdr[pos - 1] # c THEN "wrong"             \* start offset taken from a foreign entry
    ELSE "right"

\* one visit of the document at position pos of chunk c; fields walked in order 1..NFields
RECURSIVE Walk(_, _, _, _, _, _, _)
Walk(f, c, pos, r, s, res, decided) ==
    IF f > NFields THEN [rd |-> r, store |-> s, res |-> res, err |-> FALSE]
    ELSE LET need == IF "SharedLoadDecision" \in Dev /\ f > 1 THEN decided     \* seeded C19-g / C07-i: decided once
                     ELSE r[f].cur # c
         IN IF ~need
            THEN Walk(f + 1, c, pos, r, s, [res EXCEPT ![f] = Lookup(r[f], c, pos)], decided)
            ELSE LET a == Attempt(s, ReadsOfLoad)
                     r1 == [r EXCEPT ![f] = Loaded(r[f], c, a[1])]
                 IN IF a[1] < ReadsOfLoad
                    THEN [rd |-> r1, store |-> a[2], res |-> res, err |-> TRUE]
                    ELSE Walk(f + 1, c, pos, r1, a[2], [res EXCEPT ![f] = Lookup(r1[f], c, pos)], decided)

Visit(c, pos) ==
    /\ visits < MaxVisits
    /\ LET w == Walk(1, c, pos, rd, store, [f \in Fields |-> "skipped"], rd[1].cur # c) IN
       /\ rd' = w.rd /\ store' = w.store
       /\ last' = [chunk |-> c, pos |-> pos, res |-> w.res, err |-> w.err, healthy |-> store = Ok]
    /\ visits' = visits + 1

\* the environment breaks the storage: for good, or for exactly one of the next reads
Break(k) == /\ store = Ok /\ visits > 0
            /\ store' = IF k = 0 THEN Dead ELSE [kind |-> "once", k |-> k]
            /\ UNCHANGED <<rd, visits, last>>

Next == (\E c \in Chunks : \E pos \in 1..EntriesPer : Visit(c, pos))
        \/ (\E k \in 0..(NFields * ReadsOfLoad) : Break(k))
Spec == Init /\ [][Next]_vars

NoWrong == \A f \in Fields : last.res[f] # "wrong"                                              \* C19 (C07)
\* a visit on storage that was healthy for the whole call and that reports success delivered every field
AllFields == (last.chunk # None /\ last.healthy /\ ~last.err) => \A f \in Fields : last.res[f] = "right"   \* C07
AllInv == NoWrong /\ AllFields

=============================================================================
