SPECIFICATION Spec
CONSTANTS
    Catalogue <- McCatalogue
    MaxOps = 14
    BatchIds = {1, 2, 3, 4, 6, 7}
    Dev = {}
    FieldBytes <- McFieldBytes
    NormOf <- McNormOf
INVARIANT Emit
CHECK_DEADLOCK FALSE
