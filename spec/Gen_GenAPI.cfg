SPECIFICATION Spec
CONSTANTS
    Catalogue <- McCatalogue
    MaxOps = 14
    BatchIds = {1, 2, 3, 4, 6, 7}
    Dev = {}
    FieldBytes <- McFieldBytes
    NormTable <- McNormTable
INVARIANT Emit
CHECK_DEADLOCK FALSE
