------------------------------- MODULE IntCoder -------------------------------
(***************************************************************************)
(* Level I: the chunked integer coder that writes the freq/norm and        *)
(* location streams of one term after another (intcoder.go                 *)
(* chunkedIntCoder: SetChunkSize, Add, Close, Write, Reset) and the        *)
(* decoder's view of the bytes (intdecoder.go: chunk offsets, loadChunk) - *)
(* C01, C02, C05.                                                          *)
(*                                                                         *)
(* ONE coder object is reused for every term of a build or merge:          *)
(*   SetChunkSize(cs, maxDoc)  reslices chunkLens to maxDoc \div cs + 1     *)
(*   Add(doc, ...)             on a chunk change: Close(), start new chunk *)
(*   Close()                   append the open chunk to `final`, record    *)
(*                             its length under the chunk number           *)
(*   Write()                   lengths -> end offsets, then the data       *)
(*   Reset()                   clear final, zero the lengths IN USE        *)
(* The decoder finds chunk k between offsets[k-1] and offsets[k].          *)
(* Invariant: for the second of two consecutive terms (any chunk sizes,    *)
(* any postings) the decoder's chunk k holds exactly the entries of the    *)
(* term's documents in chunk k - whatever the first term left behind.      *)
(***************************************************************************)
EXTENDS Integers, Sequences, FiniteSets, TLC, SequencesExt

CONSTANTS NDocs, ChunkSizes, Dev
Docs == 0..(NDocs - 1)
MaxSlots == NDocs + 1

VARIABLES t1, t2      \* two consecutive terms: [cs, docs]
vars == <<t1, t2>>

\* coder state: [lens : 1..MaxSlots -> Nat (index = chunk + 1), n : slots in use, final : Seq(doc), curr : open chunk, open : Seq(doc)]
Fresh == [lens |-> [i \in 1..MaxSlots |-> 0], n |-> 1, final |-> <<>>, curr |-> 0, open |-> <<>>]

SetChunkSize(c, cs) == [c EXCEPT !.n = ((NDocs - 1) \div cs) + 1]

Close(c) == [c EXCEPT !.lens[c.curr + 1] = Len(c.open), !.final = c.final \o c.open,
                      !.curr = MaxSlots - 1]                                \* "sentinel"

Add(c, cs, d) ==
    LET k == d \div cs IN
    IF k # c.curr
    THEN LET c1 == Close(c) IN [c1 EXCEPT !.open = <<d>>, !.curr = k]
    ELSE [c EXCEPT !.open = Append(@, d)]

RECURSIVE AddAll(_, _, _)
AddAll(c, cs, ds) == IF ds = <<>> THEN c ELSE AddAll(Add(c, cs, Head(ds)), cs, Tail(ds))

Reset(c) ==
    [c EXCEPT !.final = <<>>, !.open = <<>>, !.curr = 0,
              !.lens = IF "ResetKeepsLens" \in Dev THEN @
                       ELSE [i \in 1..MaxSlots |-> IF i <= c.n THEN 0 ELSE @[i]]]

\* one term through the (reused) coder: SetChunkSize, Add*, Close, then what Write() emits
Encode(c, t) ==
    LET c1 == SetChunkSize(c, t.cs)
        c2 == AddAll([c1 EXCEPT !.open = <<>>], t.cs, SetToSortSeq(t.docs, <))
        c3 == IF "NoFinalClose" \in Dev THEN c2 ELSE Close(c2)
    IN c3

RECURSIVE SumTo(_, _)
SumTo(lens, k) == IF k = 0 THEN 0 ELSE lens[k] + SumTo(lens, k - 1)
\* decoder: chunk k (0-based) of an encoded term
DecodeChunk(c, k) == LET s == SumTo(c.lens, k) IN
    IF s + c.lens[k + 1] > Len(c.final) THEN <<-1>>              \* offsets point past the data
    ELSE SubSeq(c.final, s + 1, s + c.lens[k + 1])

Init == /\ t1 \in [cs : ChunkSizes, docs : SUBSET Docs]
        /\ t2 \in [cs : ChunkSizes, docs : SUBSET Docs]
Next == UNCHANGED vars
Spec == Init /\ [][Next]_vars

AfterFirst == Reset(Encode(Fresh, t1))
Second == Encode(AfterFirst, t2)

ChunksRight ==
    \A k \in 0..(Second.n - 1) :
        DecodeChunk(Second, k) = SetToSortSeq({d \in t2.docs : d \div t2.cs = k}, <)
NothingLost == Len(Second.final) = Cardinality(t2.docs)

=============================================================================
