SPECIFICATION Spec
CONSTANTS
    NDocs = 5
    ChunkSizes = {1, 2, 3, 5}
    Dev = {}
INVARIANTS ChunksRight NothingLost
CHECK_DEADLOCK FALSE
