SPECIFICATION Spec
CONSTANTS
    NDocs = 4
    Vals <- McVals
    NCtx = 2
    MaxVisits = 4
    Dev = {}
VIEW view
INVARIANT OwnValues
CHECK_DEADLOCK FALSE
