SPECIFICATION Spec
CONSTANTS
    Docs = {0, 1, 2}
    MaxLookups = 3
    Dev = {"NilOnlyEmptyCheck"}
INVARIANTS CountRight IterRight NoCrash FirstRight
CHECK_DEADLOCK FALSE
