SPECIFICATION GenSpec
CONSTANTS
    Terms = {0, 1, 2}
    SegDocs <- McSegDocs323
    Dev = {}
INVARIANT Emit
CHECK_DEADLOCK FALSE
