SPECIFICATION Spec
CONSTANTS
    N = 4
    ChunkSizes = {1, 2, 3, 4}
    MaxOps = 100
    Dev = {}
VIEW view
INVARIANTS NoCrash RightDoc RightEntries EndSticky
CHECK_DEADLOCK FALSE
