SPECIFICATION SpecDiverge
CONSTANTS
    Catalogue <- McCatalogue
    SelIds = {1, 2, 3, 4, 5, 6, 7}
    MaxSegs = 3
    Dev = {"SamePrefixOnly"}
    FieldBytes <- McFieldBytes
    NormTable <- McNormTable
INVARIANT AllRefine
CHECK_DEADLOCK FALSE
