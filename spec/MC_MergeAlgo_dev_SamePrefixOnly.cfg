SPECIFICATION SpecDiverge
CONSTANTS
    Catalogue <- McCatalogue
    MaxSegs = 3
    Dev = {"SamePrefixOnly"}
    FieldBytes <- McFieldBytes
    NormOf <- McNormOf
INVARIANT AllRefine
CHECK_DEADLOCK FALSE
