SPECIFICATION TraceSpec
CONSTANTS
    FieldBytes <- TrFieldBytes
    NormOf <- TrNormOf
    BatchOf <- TrBatchOf
POSTCONDITION TraceAccepted
CHECK_DEADLOCK FALSE
ALIAS TraceAlias
VIEW TraceView
