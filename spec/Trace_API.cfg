SPECIFICATION TraceSpec
CONSTANTS
    FieldBytes <- TrFieldBytes
    NormTable <- TrNormTable
    BatchOf <- TrBatchOf
POSTCONDITION TraceAccepted
CHECK_DEADLOCK FALSE
ALIAS TraceAlias
VIEW TraceView
