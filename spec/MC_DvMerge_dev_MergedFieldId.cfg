SPECIFICATION Spec
CONSTANTS
    NSegs = 2
    MaxDocs = 2
    Dev = {"MergedFieldId"}
INVARIANT AllRight
CHECK_DEADLOCK FALSE
