SPECIFICATION Spec
CONSTANTS
    MaxDocs = 8
    BS = 3
    ReaderBS = 2
    Dev = {}
INVARIANTS BuiltReadsBack TableShape MergedReadsBack
CHECK_DEADLOCK FALSE
