------------------------------- MODULE DvCodec -------------------------------
(***************************************************************************)
(* Level I: doc values on disk and their reader (contentcoder.go           *)
(* chunkedContentCoder, docvalues.go docValueReader) - C07.                *)
(*                                                                         *)
(* Writer: documents that have doc values are added in ascending order;    *)
(* when the chunk (doc \div CS) changes, the open chunk is flushed: its    *)
(* bytes are appended to `final` and its length is recorded UNDER THE      *)
(* CHUNK NUMBER; chunks without any document keep length 0.  The reader    *)
(* finds chunk k at the offsets obtained by summing the lengths before k.  *)
(* Reader: caches one chunk (header + lazily decompressed data) per field; *)
(* a visit loads the chunk of the document unless it is the cached one,    *)
(* binary-searches the header and decompresses on first use.               *)
(*                                                                         *)
(* Invariant: a visit delivers exactly the document's own values whatever  *)
(* the visiting order, also across chunks that hold no document at all.    *)
(* Deviations: "IncrementChunk" (writer moves to "the next" chunk instead  *)
(* of the document's chunk), "NoInvalidate" (a newly loaded chunk keeps    *)
(* the previous chunk's decompressed bytes), "NoChunkCheck" (the cached    *)
(* chunk is never replaced once loaded), "EarlyFlushOverwritesLen" (the     *)
(* merger's progressive writer flushes a chunk in two parts - seeded C17-q).*)
(***************************************************************************)
EXTENDS Integers, Sequences, FiniteSets, TLC, SequencesExt

CONSTANTS NDocs, CS, Dev

Docs == 0..(NDocs - 1)
NChunks == ((NDocs - 1) \div CS) + 1
None == -1

VARIABLES has,        \* documents that have doc values in this field
          cur, header, uncomp,      \* reader: cached chunk number, its header, chunk whose bytes are decompressed
          out         \* last delivery: [doc, got]  got = <<>> or <<chunk whose bytes were sliced, doc>>
vars == <<has, cur, header, uncomp, out>>

-----------------------------------------------------------------------------
(* Writer: fold over the documents in ascending order *)

RECURSIVE Write(_, _, _, _, _)
\* todo: remaining docs; currChunk; open: docs in the open chunk; lens: chunk -> length; final: bytes so far
Write(todo, currChunk, open, lens, final) ==
    IF todo = <<>>
    THEN [lens |-> [lens EXCEPT ![currChunk] = Len(open)], final |-> final \o open]      \* Close(): flush
    ELSE LET d == Head(todo)  k == d \div CS IN
         IF k # currChunk
         THEN Write(Tail(todo), IF "IncrementChunk" \in Dev THEN currChunk + 1 ELSE k, <<d>>,     \* Add: flush, switch, add
                    [lens EXCEPT ![currChunk] = Len(open)], final \o open)
         ELSE IF "EarlyFlushOverwritesLen" \in Dev /\ Len(open) >= 1
              THEN \* seeded C17-q: a size bound flushes the chunk that is still being filled; its recorded length is
                   \* OVERWRITTEN by the next part's, although both parts are in the file
                   Write(Tail(todo), currChunk, <<d>>, [lens EXCEPT ![currChunk] = Len(open)], final \o open)
              ELSE Write(Tail(todo), currChunk, Append(open, d), lens, final)

\* with the deviation the writer can run past the chunk table; clamp so that the model stays total
SafeWrite ==
    LET r == Write(SetToSortSeq(has, <), 0, <<>>, [k \in 0..(NChunks + NDocs) |-> 0], <<>>) IN r

OnDisk == SafeWrite

\* reader side: the block of chunk k, located by summing the lengths before it
RECURSIVE SumLens(_, _)
SumLens(lens, k) == IF k = 0 THEN 0 ELSE lens[k - 1] + SumLens(lens, k - 1)
Block(k) == LET s == SumLens(OnDisk.lens, k) IN SubSeq(OnDisk.final, s + 1, s + OnDisk.lens[k])

-----------------------------------------------------------------------------
Init == /\ has \in SUBSET Docs
        /\ cur = None /\ header = <<>> /\ uncomp = None
        /\ out = [doc |-> None, got |-> <<>>]

Visit(d) ==
    LET k == d \div CS
        reload == IF "NoChunkCheck" \in Dev THEN cur = None ELSE k # cur
        h  == IF reload THEN Block(k) ELSE header
        c  == IF reload THEN k ELSE cur
        u0 == IF reload /\ "NoInvalidate" \notin Dev THEN None ELSE uncomp
        found == \E i \in DOMAIN h : h[i] = d
        u1 == IF found /\ u0 = None THEN c ELSE u0          \* decompress the cached chunk on first use
    IN /\ cur' = c /\ header' = h /\ uncomp' = u1
       /\ out' = [doc |-> d, got |-> IF found THEN <<u1, d>> ELSE <<>>]
       /\ UNCHANGED has

Next == \E d \in Docs : Visit(d)
Spec == Init /\ [][Next]_vars

\* C07
Delivered ==
    out.doc # None =>
        IF out.doc \in has THEN out.got = <<out.doc \div CS, out.doc>> ELSE out.got = <<>>

=============================================================================
