SPECIFICATION Spec
CONSTANTS
    NSegs = 2
    MaxDocs = 2
    Dev = {}
INVARIANT AllRight
CHECK_DEADLOCK FALSE
