SPECIFICATION SpecAlgQuick
CONSTANTS
    Catalogue <- McCatalogue
    SelIds = {1, 2, 3, 4, 5, 6, 7}
    MaxSegs = 3
    Dev = {}
    FieldBytes <- McFieldBytes
    NormTable <- McNormTable
INVARIANTS Associative DropsCommute Identity StatsIdentity MapBijective CursorAgrees
CHECK_DEADLOCK FALSE
