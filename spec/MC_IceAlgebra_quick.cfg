SPECIFICATION SpecAlgQuick
CONSTANTS
    Catalogue <- McCatalogue
    MaxSegs = 3
    Dev = {}
    FieldBytes <- McFieldBytes
    NormOf <- McNormOf
INVARIANTS Associative DropsCommute Identity StatsIdentity MapBijective CursorAgrees
CHECK_DEADLOCK FALSE
