SPECIFICATION Spec
CONSTANTS
    NSegs = 2
    MaxDocs = 2
    Dev = {"UnfilteredTable"}
INVARIANT AllRight
CHECK_DEADLOCK FALSE
