---------------------------- MODULE WriterFaults ----------------------------
(***************************************************************************)
(* Level I: how bytes and their CRC reach the caller's writer              *)
(* (count.go, write.go persistFooter, segment.go WriteTo, merge.go         *)
(* Merger.WriteTo, bufio.Writer) - C11 and C12.                            *)
(*                                                                         *)
(* Part 1 - the CRC chain.  Bytes are abstract tokens; a CRC value is      *)
(* represented by THE SEQUENCE IT COVERS, so "the stored CRC covers every  *)
(* preceding byte" is an equation between sequences.  The builder and the  *)
(* merger hash the data section and seed the footer writer with it; the    *)
(* footer writer continues over the footer fields and appends the result.  *)
(* A loaded segment's footer.crc is the CRC of the WHOLE file, so          *)
(* re-persisting it must not seed from footer.crc (deviation               *)
(* "SeedFromFooter" = the pinned behaviour); the repaired design hashes    *)
(* the data section again while writing it.                                *)
(*                                                                         *)
(* Part 2 - faults.  A producer performs a list of writes through          *)
(* countHashWriter -> bufio.Writer(size B) -> the caller's writer, which   *)
(* fails from byte K on, or closes the close channel once C bytes arrived. *)
(* bufio's error is sticky and Merger.WriteTo/Segment.WriteTo return the   *)
(* error of the final Flush.  Invariants: success is only reported when    *)
(* every byte was delivered; a closed channel yields ErrClosed or the      *)
(* complete file.  Deviation "DropFlushErr" ignores the Flush result (or   *)
(* lets a later call's result - a Sync() of the destination, seeded C12-j  *)
(* - replace it);                                                          *)
(* "PollAfterDataNil" adds a poll that returns nil after data was written. *)
(*                                                                         *)
(* The caller's writer may also fail for ONE Write call only (cfg.once:    *)
(* the call that would carry byte K is rejected whole, later calls are     *)
(* accepted) - the failure must still be reported.  Segment.WriteTo of a   *)
(* file-backed segment streams its data section in pieces straight to the  *)
(* writer (cfg.direct, no bufio in between): the first failing piece ends  *)
(* the call.  Deviations: "SkipFlushWhenFull" (the final Flush is guarded  *)
(* by Available() > 0 - seeded C12-h), "OverwriteErr" (the streaming loop  *)
(* keeps going and a later successful piece overwrites the error - seeded  *)
(* C12-i), "ErrOnlyIfShort" (the streaming loop looks at the error only    *)
(* when the count is short; cfg.full = the failing call takes all its      *)
(* bytes and still returns an error - seeded C12-l),                       *)
(* "PollReturnsStaleErr" (a poll inside a later phase - the doc-value      *)
(* location table - returns the hoisted, still-nil error variable instead  *)
(* of ErrClosed: the phase's writes are dropped and the call reports       *)
(* success - seeded C12-r; on the code: family `wide_tail`).               *)
(***************************************************************************)
EXTENDS Integers, Sequences, FiniteSets, TLC

CONSTANTS WriteLists,    \* set of sequences of write sizes
          BufSizes,      \* bufio sizes
          Dev

-----------------------------------------------------------------------------
(* Part 2: buffered writes under faults *)

VARIABLES cfg,      \* [ws, B, K (fail offset or -1), C (close point or -1), once, direct]
          hit,      \* the one-shot failure has happened
          wi,       \* next producer write
          buf,      \* bytes sitting in the bufio buffer
          err,      \* bufio's sticky error
          under,    \* bytes delivered to the caller's writer
          closed,   \* close channel closed
          result    \* "running", "nil", "err", "closed"
fVars == <<cfg, hit, wi, buf, err, under, closed, result>>

Total(ws) == LET RECURSIVE S(_) S(i) == IF i > Len(ws) THEN 0 ELSE ws[i] + S(i + 1) IN S(1)

\* the caller's writer: accepts m bytes, or fails from offset K on (for good, or - once - for the single call
\* that would carry byte K, of which nothing is accepted); h = the one-shot failure already happened.
\* Returns <<delivered, failed, h'>>
UnderH(u, m, h) ==
    IF cfg.K < 0 \/ u + m <= cfg.K \/ (cfg.once /\ h) THEN <<m, FALSE, h>>
    ELSE IF cfg.once THEN <<IF cfg.full THEN m ELSE 0, TRUE, TRUE>>     \* full: every byte taken AND an error returned
    ELSE <<IF cfg.K > u THEN cfg.K - u ELSE 0, TRUE, h>>

\* bufio.Writer.Flush on state st = [buf, err, under]
Flush(st) ==
    IF st.err THEN st
    ELSE IF st.buf = 0 THEN st
    ELSE LET r == UnderH(st.under, st.buf, st.h) IN
         [buf |-> st.buf - r[1], err |-> r[2], under |-> st.under + r[1], h |-> r[3]]

\* bufio.Writer.Write(p) with len(p) = m
RECURSIVE BWrite(_, _)
BWrite(st, m) ==
    IF m > cfg.B - st.buf /\ ~st.err
    THEN IF st.buf = 0
         THEN LET r == UnderH(st.under, m, st.h) IN    \* large write: straight to the caller's writer
              IF r[2] THEN [buf |-> 0, err |-> TRUE, under |-> st.under + r[1], h |-> r[3]]
              ELSE BWrite([buf |-> 0, err |-> FALSE, under |-> st.under + r[1], h |-> r[3]], m - r[1])
         ELSE LET n == cfg.B - st.buf IN              \* fill the buffer, flush
              BWrite(Flush([st EXCEPT !.buf = cfg.B]), m - n)
    ELSE IF st.err THEN st
    ELSE [st EXCEPT !.buf = @ + m]

FInit ==
    /\ cfg \in {c \in [ws : WriteLists, B : BufSizes, K : -1..9, C : -1..9, once : BOOLEAN, full : BOOLEAN, direct : BOOLEAN] :
                    /\ c.K <= Total(c.ws) + 1 /\ c.C <= Total(c.ws) + 1
                    /\ (c.K >= 0 => c.C = -1)            \* either a failing writer or a close point
                    /\ (c.once => c.K >= 0) /\ (c.full => c.once)
                    /\ (c.direct => c.C = -1 /\ c.B = 1)} \* Segment.WriteTo has no close channel; B is irrelevant
    /\ hit = FALSE
    /\ wi = 1 /\ buf = 0 /\ err = FALSE /\ under = 0
    /\ closed = (cfg.C = 0)
    /\ result = "running"

St == [buf |-> buf, err |-> err, under |-> under, h |-> hit]
Closes(u) == cfg.C >= 0 /\ u >= cfg.C

\* cancellation is polled before the writes that start a phase (segments, terms, doc-value passes)
PollPoint(i) == i = 1 \/ i % 2 = 1

Produce ==
    /\ result = "running" /\ wi <= Len(cfg.ws)
    /\ IF PollPoint(wi) /\ closed
       THEN IF "PollReturnsStaleErr" \in Dev /\ wi > 1
            THEN /\ wi' = wi + 2 /\ UNCHANGED <<result, buf, err, under, closed, hit>>   \* "return 0, err" with the hoisted, still-nil err: the phase's writes are dropped, the call goes on
            ELSE /\ result' = "closed" /\ UNCHANGED <<wi, buf, err, under, closed, hit>>
       ELSE LET st == IF cfg.direct
                      THEN LET r == UnderH(under, cfg.ws[wi], hit) IN        \* a piece of the data section, unbuffered
                           [buf |-> 0, under |-> under + r[1], h |-> r[3],
                            err |-> IF "OverwriteErr" \in Dev THEN r[2]
                                    ELSE IF "ErrOnlyIfShort" \in Dev THEN (err \/ (r[2] /\ r[1] < cfg.ws[wi]))    \* seeded C12-l
                                    ELSE (err \/ r[2])]
                      ELSE BWrite(St, cfg.ws[wi])
            IN
            /\ buf' = st.buf /\ err' = st.err /\ under' = st.under /\ hit' = st.h
            /\ closed' = (closed \/ Closes(st.under))
            /\ wi' = wi + 1
            /\ result' = IF st.err /\ ~(cfg.direct /\ "OverwriteErr" \in Dev /\ wi < Len(cfg.ws)) THEN "err"   \* every section writer returns the error
                         ELSE IF "PollAfterDataNil" \in Dev /\ wi = Len(cfg.ws) /\ closed' THEN "nil"
                         ELSE "running"
    /\ UNCHANGED cfg

Finish ==             \* err = bw.Flush(); return n, err
    /\ result = "running" /\ wi > Len(cfg.ws)
    /\ LET st == IF "SkipFlushWhenFull" \in Dev /\ buf = cfg.B THEN St ELSE Flush(St) IN     \* "if bw.Available() > 0"
       /\ buf' = st.buf /\ err' = st.err /\ under' = st.under /\ hit' = st.h
       /\ result' = IF st.err /\ "DropFlushErr" \notin Dev THEN "err" ELSE "nil"
       /\ closed' = (closed \/ Closes(st.under))
    /\ UNCHANGED <<cfg, wi>>

FNext == Produce \/ Finish
FSpec == FInit /\ [][FNext]_fVars /\ WF_fVars(FNext)

\* C12
NoSilentSuccess == result = "nil" => under = Total(cfg.ws)
FailingWriterReported == (result # "running" /\ cfg.K >= 0 /\ cfg.K < Total(cfg.ws)) => result = "err"
ClosedOrComplete == (result # "running" /\ cfg.C >= 0) => (result = "closed" \/ (result = "nil" /\ under = Total(cfg.ws)))
NoFaultSucceeds == (result # "running" /\ cfg.K < 0 /\ cfg.C < 0) => (result = "nil" /\ under = Total(cfg.ws))
Terminates == <>(result # "running")

McWriteLists == {<<2, 1, 3>>, <<1, 1, 1, 1>>, <<3, 3>>, <<1, 4, 1, 2>>, <<5>>, <<1, 2, 2, 1, 3>>}

=============================================================================
