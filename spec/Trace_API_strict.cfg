SPECIFICATION TraceSpec
CONSTANTS
    FieldBytes <- TrFieldBytes
    NormTable <- TrNormTable
    BatchOf <- TrBatchOf
INVARIANTS
    Inv_C01 Inv_C02 Inv_C03 Inv_C04 Inv_C05 Inv_C06 Inv_C07 Inv_C08 Inv_C09 Inv_C10
    Inv_C11 Inv_C12 Inv_C13 Inv_C14 Inv_C15 Inv_C16 Inv_C17 Inv_C18 Inv_C19
POSTCONDITION TraceAccepted
CHECK_DEADLOCK FALSE
ALIAS TraceAlias
VIEW TraceView
