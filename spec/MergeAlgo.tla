------------------------------ MODULE MergeAlgo ------------------------------
(***************************************************************************)
(* Level I: the merger (merge.go, enumerator.go), transcribed over Level-A *)
(* contents, and checked to refine IceData!Merge on a catalogue of small   *)
(* inputs with every deletion set (C02, C03, C16, C17).                    *)
(*                                                                         *)
(* The merger never sees documents: it reads its inputs through the same   *)
(* read API as everybody else (field lists, dictionaries, postings with    *)
(* the deletions excluded, stored fields, doc values) and rebuilds:        *)
(*   mergeFields         union of field lists, "_id" first; fieldsSame     *)
(*   computeNewDocCount  survivors, from the bitmaps                        *)
(*   mergeStoredAndRemap per segment either the byte-copy path (fieldsSame *)
(*                       and nothing deleted: records copied with the      *)
(*                       SOURCE segment's field ids) or the re-encode path *)
(*                       (values re-grouped by merged field id); fills the *)
(*                       old->new document number map                      *)
(*   per field           k-way enumeration of the segments' terms by       *)
(*                       (term, segment index); postings re-encoded under  *)
(*                       the map; a term is kept iff a posting survives;   *)
(*                       field statistics recomputed from what survives    *)
(*   doc values          copied per document from segments that have them  *)
(* The result is compared, observation by observation, with the content     *)
(* IceData!Merge defines.                                                   *)
(***************************************************************************)
EXTENDS Catalogue, Json

CONSTANTS Catalogue,      \* sequence of batches
          MaxSegs,        \* segments per merge
          SelIds,         \* catalogue entries that may be selected
          Dev

VARIABLES sel, drops
vars == <<sel, drops>>

Cs == [i \in DOMAIN sel |-> Build(Catalogue[sel[i]])]
NDocsOf(c) == Len(c.docs)

-----------------------------------------------------------------------------
(* mergeFields *)

FieldsSame ==
    \A i \in DOMAIN sel :
        IF "SamePrefixOnly" \in Dev
        THEN \A k \in DOMAIN Cs[i].fields : k <= Len(Cs[1].fields) => Cs[1].fields[k] = Cs[i].fields[k]
        ELSE Cs[i].fields = Cs[1].fields
MergedFields == FieldList(UNION {RangeOf(Cs[i].fields) : i \in DOMAIN sel})
FieldIdx(fields, f) == CHOOSE k \in DOMAIN fields : fields[k] = f

-----------------------------------------------------------------------------
(* computeNewDocCount, mergeStoredAndRemap *)

NewDocCount ==
    LET RECURSIVE S(_) S(i) == IF i > Len(sel) THEN 0 ELSE NDocsOf(Cs[i]) - Cardinality(drops[i]) + S(i + 1) IN S(1)

CopyPath(i) == FieldsSame /\ (drops[i] = {} \/ "CopyPathIgnoresDrops" \in Dev)

\* walk the segments; acc = [next: next new number, map: Seq(Seq), stored: Seq(stored values of new docs)]
RECURSIVE Remap(_, _)
Remap(i, acc) ==
    IF i > Len(sel) THEN acc
    ELSE LET c == Cs[i]
             n == NDocsOf(c)
             copy == CopyPath(i)
             alive(d) == copy \/ d \notin drops[i]
             numOf(d) == acc.next + Cardinality({x \in 0..(d - 1) : alive(x)})
             m == [d1 \in 1..n |-> IF alive(d1 - 1) THEN numOf(d1 - 1) ELSE Dropped]
             \* stored record of a surviving document: (field, value) in the order written.
             \* copy path: bytes are copied, their field ids are the SOURCE segment's ids and are
             \* later resolved against the merged field list
             rec(d) == LET st == StoredOf(c, d) IN
                       IF copy
                       THEN [k \in DOMAIN st |-> [field |-> LET id == FieldIdx(c.fields, st[k].field) IN
                                                            IF id <= Len(MergedFields) THEN MergedFields[id] ELSE "?",
                                                  value |-> st[k].value]]
                       ELSE st
             survivors == SelectSeq([x \in 1..n |-> x - 1], LAMBDA d : alive(d))
         IN Remap(i + 1, [next |-> acc.next + Len(survivors),
                          map |-> Append(acc.map, m),
                          stored |-> acc.stored \o [k \in DOMAIN survivors |-> rec(survivors[k])]])

Remapped == Remap(1, [next |-> 0, map |-> <<>>, stored |-> <<>>])

-----------------------------------------------------------------------------
(* persistMergedRest: per field, per term *)

\* segments that have a dictionary (an FST) for field f
InFocus(f) == SelectSeq([i \in DOMAIN sel |-> i], LAMBDA i : KnownField(Cs[i], f) /\ TermSet(Cs[i], f) # {})

\* enumerator: all terms of the focused segments in ascending order
TermsOf(f) == SetToSorted(UNION {TermSet(Cs[i], f) : i \in RangeOf(InFocus(f))}, LexLess)

\* mergeTermFreqNormLocs over the segments that have the term, in segment order
MergedPostings(f, t) ==
    LET segs == SelectSeq(InFocus(f), LAMBDA i : t \in TermSet(Cs[i], f))
        one(i) == LET ps == SelectSeq(Postings(Cs[i], f, t), LAMBDA p : p.doc \notin drops[i]) IN
                  [k \in DOMAIN ps |-> [ps[k] EXCEPT !.doc = Remapped.map[i][ps[k].doc + 1]]]
    IN Flatten([k \in DOMAIN segs |-> one(segs[k])])

LiveTerms(f) == SelectSeq(TermsOf(f), LAMBDA t : MergedPostings(f, t) # <<>>)     \* finishTerm: inserted iff card > 0

\* 1-hit decision (encoding only): single posting, no locations, freq 1 as seen from the LAST segment processed
OneHit(f, t) ==
    LET ps == MergedPostings(f, t) IN
    Len(ps) = 1 /\ ps[1].locs = <<>> /\ (ps[1].freq = 1 \/ "OneHitAnyFreq" \in Dev)
\* what a reader decodes from the written term: a 1-hit value always reads back as frequency 1
ReadBack(f, t) ==
    LET ps == MergedPostings(f, t) IN
    IF OneHit(f, t) THEN <<[ps[1] EXCEPT !.freq = 1]>> ELSE ps

MergedStats(f) ==
    LET ts == LiveTerms(f)
        docsOf == UNION {{MergedPostings(f, ts[k])[j].doc : j \in DOMAIN MergedPostings(f, ts[k])} : k \in DOMAIN ts}
        freqs == SumSeq([k \in DOMAIN ts |->
                    IF "FreqFromCard" \in Dev THEN Len(MergedPostings(f, ts[k]))
                    ELSE SumSeq([j \in DOMAIN MergedPostings(f, ts[k]) |-> MergedPostings(f, ts[k])[j].freq])])
    IN [total |-> NewDocCount, docs |-> Cardinality(docsOf), sumttf |-> ToBig(freqs)]

\* buildMergedDocVals: values of new document k in field f
SourceOf(k) ==      \* <<segment, old number>> of new document k
    CHOOSE p \in {<<i, d>> : i \in DOMAIN sel, d \in 0..20} :
        p[2] < NDocsOf(Cs[p[1]]) /\ Remapped.map[p[1]][p[2] + 1] = k
MergedDocValues(k, f) ==
    LET src == SourceOf(k) IN
    IF src[1] \in RangeOf(InFocus(f)) THEN DocValuesOf(Cs[src[1]], src[2], <<f>>) ELSE <<>>

-----------------------------------------------------------------------------
(* The checked instance: every selection of catalogue entries with every deletion set *)

Init ==
    /\ sel \in UNION {[1..n -> SelIds] : n \in 1..MaxSegs}
    /\ drops \in [DOMAIN sel -> SUBSET (0..2)]
    /\ \A i \in DOMAIN sel : drops[i] \subseteq 0..(Len(Catalogue[sel[i]]) - 1)
Next == UNCHANGED vars
Spec == Init /\ [][Next]_vars

\* the three-segment shape in which field lists diverge after a common prefix
InitDiverge == sel = <<1, 6, 4>> /\ drops \in [1..3 -> {{}, {0}}]
SpecDiverge == InitDiverge /\ [][Next]_vars

A == Merge(Cs, [i \in DOMAIN sel |-> drops[i]])      \* Level A

RefinesFields   == MergedFields = A.fields
RefinesCount    == NewDocCount = Len(A.docs) /\ Remapped.next = NewDocCount
RefinesDocNums  == Remapped.map = DocNumMap(Cs, [i \in DOMAIN sel |-> drops[i]])                     \* C03
RefinesTerms    == \A f \in RangeOf(A.fields) :
                       LiveTerms(f) = SetToSorted(TermSet(A, f), LexLess)                             \* C02, C08
RefinesPostings == \A f \in RangeOf(A.fields) : \A k \in DOMAIN LiveTerms(f) :
                       ReadBack(f, LiveTerms(f)[k]) = Postings(A, f, LiveTerms(f)[k])                 \* C02
RefinesStored   == \A k \in 0..(NewDocCount - 1) : Remapped.stored[k + 1] = StoredOf(A, k)           \* C02, C06
RefinesStats    == \A f \in RangeOf(A.fields) :
                       ContentLenIsSumFreq(A) => MergedStats(f) = Stats(A, f)                         \* C16
RefinesDocValues == \A k \in 0..(NewDocCount - 1) : \A f \in RangeOf(A.fields) :
                       MergedDocValues(k, f) = DocValuesOf(A, k, <<f>>)                               \* C07


\* E2: the same configurations, emitted for execution on the real merger
EmitConfig == PrintT(<<"BEHAVIOUR", ToJson([sel |-> sel, drops |-> [i \in DOMAIN sel |-> SetToSorted(drops[i], <)],
                                             catalogue |-> Catalogue])>>)

AllRefine == /\ RefinesFields /\ RefinesCount /\ RefinesDocNums /\ RefinesTerms /\ RefinesPostings
             /\ RefinesStored /\ RefinesStats /\ RefinesDocValues

=============================================================================
