SPECIFICATION Spec
CONSTANTS
    Catalogue <- McCatalogue
    MaxSegs = 2
    Dev = {}
    FieldBytes <- McFieldBytes
    NormOf <- McNormOf
INVARIANTS RefinesFields RefinesCount RefinesDocNums RefinesTerms RefinesPostings RefinesStored RefinesStats RefinesDocValues
CHECK_DEADLOCK FALSE
