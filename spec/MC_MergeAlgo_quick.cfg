SPECIFICATION Spec
CONSTANTS
    Catalogue <- McCatalogue
    SelIds = {1, 2, 3, 4, 7}
    MaxSegs = 2
    Dev = {}
    FieldBytes <- McFieldBytes
    NormTable <- McNormTable
INVARIANTS RefinesFields RefinesCount RefinesDocNums RefinesTerms RefinesPostings RefinesStored RefinesStats RefinesDocValues
CHECK_DEADLOCK FALSE
