SPECIFICATION Spec
CONSTANTS
    Procs = {1, 2}
    Fields = {"a", "b"}
    Unknown = "zz"
    MaxCalls = 2
    Dev = {"UnlockedHit"}
VIEW view
INVARIANTS MutexMatchesCS NoCallActiveMeansFree LocksetDiscipline OkMeansCached
PROPERTY CallsReturn
CHECK_DEADLOCK FALSE
