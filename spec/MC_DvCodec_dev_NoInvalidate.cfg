SPECIFICATION Spec
CONSTANTS
    NDocs = 7
    CS = 2
    Dev = {"NoInvalidate"}
INVARIANT Delivered
CHECK_DEADLOCK FALSE
