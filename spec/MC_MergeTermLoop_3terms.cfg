SPECIFICATION Spec
CONSTANTS
    Terms = {0, 1, 2}
    SegDocs <- McSegDocs11
    Dev = {}
INVARIANT AllRight
CHECK_DEADLOCK FALSE
