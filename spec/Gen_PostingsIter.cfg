SPECIFICATION GenSpec
CONSTANTS
    N = 6
    ChunkSizes = {1, 2, 3, 4, 6}
    MaxOps = 12
    Dev = {}
CHECK_DEADLOCK FALSE
