SPECIFICATION Spec
CONSTANTS
    Catalogue <- McCatalogue
    MaxOps = 5
    BatchIds = {1, 3}
    Dev = {}
    FieldBytes <- McFieldBytes
    NormTable <- McNormTable
VIEW view
INVARIANT ReuseTransparent
PROPERTIES SegmentsImmutable BitmapsImmutable StatsIndependent FieldListsImmutable DitsIndependent
CHECK_DEADLOCK FALSE
