SPECIFICATION Spec
CONSTANTS
    Procs = {1, 2}
    Blocks = {1, 2}
    Size <- McSize
    Short <- McShort
    Slack = 2
    Look = 3
    Values = 2
    MaxVisits = 2
    MaxDepth = 1
    MaxCtx = 4
    Dev = {"PutEarly"}
VIEW view
INVARIANTS Correct Exclusive PoolDisjoint
CHECK_DEADLOCK FALSE
