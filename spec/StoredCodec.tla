------------------------------ MODULE StoredCodec ------------------------------
(***************************************************************************)
(* Level I: stored-field blocks on disk (documentcoder.go                  *)
(* chunkedDocumentCoder; read.go getDocStoredOffsets; merge.go             *)
(* copyStoredDocs) - C04, C06, C10.                                        *)
(*                                                                         *)
(* Writer: records are appended to a buffer; every BS-th record the buffer *)
(* is compressed and written and the running byte count is appended to the *)
(* offsets table; Write() flushes what is left and ALWAYS appends one more *)
(* offset, so the table has n \div BS + 2 entries.  The stored index holds *)
(* each document's offset inside its (uncompressed) block.                 *)
(* Reader: block = doc \div BS, bytes between offsets[block] and           *)
(* offsets[block+1], record at the indexed offset.                         *)
(* Merge copy path: the source's non-empty blocks are walked record by     *)
(* record and re-added under new document numbers.                         *)
(* Records are abstract (one unit each, identified by their document).     *)
(* Deviations: "NoFinalFlush", a reader with another block size,           *)
(* "EarlyFlush" (seeded C03-q), "HoistedBlockStart" (seeded C06-o).        *)
(***************************************************************************)
EXTENDS Integers, Sequences, FiniteSets, TLC

CONSTANTS MaxDocs, BS, ReaderBS, Dev

VARIABLES n1, n2       \* document counts of two source segments (the second one is appended by a copy-path merge)
vars == <<n1, n2>>

\* coder state: [buf : Seq(rec), n : records added, blocks : Seq(Seq(rec)) written, offs : Seq(Nat), index : Seq(Nat)]
Fresh == [buf |-> <<>>, n |-> 0, blocks |-> <<>>, offs |-> <<0>>, bytes |-> 0, index |-> <<>>]

EarlyAt == 2       \* the deviation's bound on pending records (stands for megabytes of pending bytes)

Flush(c) ==
    IF c.buf # <<>>
    THEN [c EXCEPT !.blocks = Append(@, c.buf), !.bytes = @ + Len(c.buf), !.offs = Append(@, c.bytes + Len(c.buf)), !.buf = <<>>]
    ELSE [c EXCEPT !.offs = Append(@, c.bytes)]

Add(c, rec) ==
    LET c1 == [c EXCEPT !.index = Append(@, Len(c.buf)), !.buf = Append(@, rec), !.n = @ + 1] IN
    IF c1.n % BS = 0 \/ ("EarlyFlush" \in Dev /\ Len(c1.buf) >= EarlyAt) THEN Flush(c1) ELSE c1      \* seeded C03-q: a memory bound flushes inside a block

RECURSIVE AddAll(_, _)
AddAll(c, recs) == IF recs = <<>> THEN c ELSE AddAll(Add(c, Head(recs)), Tail(recs))

Finish(c) == IF "NoFinalFlush" \in Dev THEN c ELSE Flush(c)

\* a built segment of n documents: records are <<seg, doc>>
BuiltSeg(s, n) == Finish(AddAll(Fresh, [d \in 1..n |-> <<s, d - 1>>]))

\* the bytes of block k as the reader locates them (offsets are byte positions into the concatenated blocks)
AllBytes(c) == LET RECURSIVE Cat(_) Cat(i) == IF i > Len(c.blocks) THEN <<>> ELSE c.blocks[i] \o Cat(i + 1) IN Cat(1)
BlockBytes(c, k) ==
    IF k + 2 > Len(c.offs) THEN << <<0, -1>> >>
    ELSE IF c.offs[k + 2] > Len(AllBytes(c)) THEN << <<0, -1>> >>
    ELSE SubSeq(AllBytes(c), c.offs[k + 1] + 1, c.offs[k + 2])

Read(c, d) ==
    LET b == BlockBytes(c, d \div ReaderBS)  off == c.index[d + 1] IN
    IF off + 1 > Len(b) THEN <<0, -1>> ELSE b[off + 1]        \* <<0,-1>>: no such record

\* copyStoredDocs: walk the source's non-empty blocks, re-add every record
CopyInto(c, src) ==
    LET RECURSIVE Walk(_, _)
        Walk(acc, k) == IF k + 2 > Len(src.offs) THEN acc
                        ELSE LET b == BlockBytes(src, k) IN
                             Walk(IF src.offs[k + 1] = src.offs[k + 2] THEN acc
                                  ELSE IF "HoistedBlockStart" \in Dev
                                  THEN \* seeded C06-o: the offset of a copied record = (pending size when its SOURCE block was
                                       \* started) + its offset in the source block - wrong once the destination flushes meanwhile
                                       LET start == Len(acc.buf)
                                           r == AddAll(acc, b)
                                       IN [r EXCEPT !.index = SubSeq(r.index, 1, Len(acc.index)) \o [j \in 1..Len(b) |-> start + j - 1]]
                                  ELSE AddAll(acc, b), k + 1)
    IN Walk(c, 0)

Merged == Finish(CopyInto(CopyInto(Fresh, BuiltSeg(1, n1)), BuiltSeg(2, n2)))

Init == n1 \in 0..MaxDocs /\ n2 \in 0..MaxDocs
Next == UNCHANGED vars
Spec == Init /\ [][Next]_vars

BuiltReadsBack == \A d \in 0..(n1 - 1) : Read(BuiltSeg(1, n1), d) = <<1, d>>
TableShape == Len(BuiltSeg(1, n1).offs) = (n1 \div BS) + 2                      \* what Load and the layout walk expect
MergedReadsBack ==
    /\ \A d \in 0..(n1 - 1) : Read(Merged, d) = <<1, d>>
    /\ \A d \in 0..(n2 - 1) : Read(Merged, n1 + d) = <<2, d>>

=============================================================================
