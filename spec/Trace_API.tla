------------------------------ MODULE Trace_API ------------------------------
(***************************************************************************)
(* E3: validation of a trace recorded from the real ice against IceAPI.    *)
(*                                                                         *)
(* The trace is ndjson: line 1 def_names, line 2 def_norm, then def_batch  *)
(* lines with ids 0,1,2,... , then events.  Every event line is consumed   *)
(* by exactly one IceAPI action (deterministic, fully logged), so          *)
(* validation is linear in the trace.  Two ways to read the verdict:       *)
(*   - strict (Trace_API_strict.cfg): INVARIANTS Inv_C01..Inv_C19, TLC     *)
(*     stops at the first contradicted property and prints the prefix;     *)
(*   - collect (Trace_API.cfg): every step appends its contradicted        *)
(*     properties to `viols`; the final step prints them as JSON so that   *)
(*     one run reports all of them (needed to tell listed known findings   *)
(*     from new violations).                                               *)
(***************************************************************************)
EXTENDS IceAPI, Json, IOUtils

TraceFile == IOEnv.TRACE_FILE
Trace == ndJsonDeserialize(TraceFile)

TrFieldBytes == Trace[1].names
TrNormTable == Trace[2].table
TrBatchOf(id) == Trace[id + 3].docs

FirstEvent == 3 + Trace[1].nbatch      \* header: def_names, def_norm, def_batch * nbatch

VARIABLES l,      \* next line to consume
          viols   \* collected contradictions: [l, ev, bad, exp, got]

trVars == <<apiVars, l, viols>>

TraceInit == ApiInit /\ l = FirstEvent /\ viols = <<>>

Step(e) ==
    \/ e.ev = "build"       /\ ABuild(e)
    \/ e.ev = "merge"       /\ AMerge(e)
    \/ e.ev = "persist"     /\ APersist(e)
    \/ e.ev = "load"        /\ ALoad(e)
    \/ e.ev = "close_file"  /\ ACloseFile(e)
    \/ e.ev = "fields"      /\ AFields(e)
    \/ e.ev = "dict"        /\ ADict(e)
    \/ e.ev = "contains"    /\ AContains(e)
    \/ e.ev = "dict_close"  /\ ADictClose(e)
    \/ e.ev = "pl_open"     /\ APlOpen(e)
    \/ e.ev = "pl_count"    /\ APlCount(e)
    \/ e.ev = "it_open"     /\ AItOpen(e)
    \/ e.ev = "it_replace"  /\ AItReplace(e)
    \/ e.ev \in {"it_next", "it_adv"} /\ AItStep(e)
    \/ e.ev = "it_count"    /\ AItCount(e)
    \/ e.ev = "it_close"    /\ AItClose(e)
    \/ e.ev = "stored"      /\ AStored(e)
    \/ e.ev = "dv_open"     /\ ADvOpen(e)
    \/ e.ev = "dv_visit"    /\ ADvVisit(e)
    \/ e.ev = "match"       /\ AMatch(e)
    \/ e.ev = "dit_open"    /\ ADitOpen(e)
    \/ e.ev = "dit_next"    /\ ADitNext(e)
    \/ e.ev = "dit_close"   /\ ADitClose(e)
    \/ e.ev = "stats"       /\ AStats(e)
    \/ e.ev = "stats_merge" /\ AStatsMerge(e)
    \/ e.ev = "stats_get"   /\ AStatsGet(e)
    \/ e.ev = "stats_add"   /\ AStatsAdd(e)
    \/ e.ev = "stats_read"  /\ AStatsRead(e)
    \/ e.ev = "def_bm"      /\ ADefBm(e)
    \/ e.ev = "digest"      /\ ADigest(e)
    \/ e.ev = "same_obs"    /\ ASameObs(e)
    \/ e.ev = "layout"      /\ ALayout(e)
    \/ e.ev = "forget"      /\ AForget(e)
    \/ e.ev \in {"par_end", "sched_end"} /\ AStuck(e)
    \/ e.ev = "par_begin"   /\ obs' = NoObs /\ Frame
    \/ e.ev = "race_report" /\ ARace(e)
    \/ e.ev = "wfault"      /\ AWFault(e)
    \/ e.ev = "merge_fsweep" /\ AMergeFSweep(e)
    \/ e.ev = "load_fsweep" /\ ALoadFSweep(e)
    \/ e.ev = "reset"       /\ AReset
    \/ e.ev = "skip"        /\ obs' = NoObs /\ Frame

TraceNext ==
    /\ l <= Len(Trace)
    /\ LET e == Trace[l] IN
       IF e.ev = "end"
       THEN /\ PrintT(<<"TRACE-END", l, ToJson(viols)>>)
            /\ l' = l + 1
            /\ UNCHANGED <<apiVars, viols>>
       ELSE /\ Step(e)
            /\ l' = l + 1
            /\ viols' = IF obs'.bad = {} THEN viols
                        ELSE Append(viols, [l |-> l, ev |-> obs'.ev, bad |-> obs'.bad,
                                            exp |-> obs'.exp, got |-> obs'.got])

TraceSpec == TraceInit /\ [][TraceNext]_trVars

\* the whole trace was explained (no line without an enabled action)
TraceAccepted == TLCGet("stats").diameter >= Len(Trace) - FirstEvent + 2

TraceView == l      \* a trace is a line: its position identifies the state (saves fingerprinting the tables)

TraceAlias == [l |-> l, obs |-> obs]

=============================================================================
