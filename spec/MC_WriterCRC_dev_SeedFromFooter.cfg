SPECIFICATION CrcSpec
CONSTANTS
    MaxSteps = 5
    Dev = {"SeedFromFooter"}
INVARIANT CrcCoversFile
CHECK_DEADLOCK FALSE
