SPECIFICATION Spec
CONSTANTS
    Look = 10
    Dev = {"FieldsLookAhead"}
INVARIANTS LookAheadInsideData ExactReadsInside
CHECK_DEADLOCK FALSE
