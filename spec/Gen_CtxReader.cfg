SPECIFICATION Spec
CONSTANTS
    NDocs = 4
    Vals <- McVals
    NCtx = 1
    MaxVisits = 8
    Dev = {}
INVARIANT Emit
CHECK_DEADLOCK FALSE
