SPECIFICATION Spec
CONSTANTS
    NDocs = 7
    CS = 2
    Dev = {"EarlyFlushOverwritesLen"}
INVARIANT Delivered
CHECK_DEADLOCK FALSE
