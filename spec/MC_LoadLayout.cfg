SPECIFICATION Spec
CONSTANTS
    Look = 10
    Dev = {}
INVARIANTS LookAheadInsideData ExactReadsInside
CHECK_DEADLOCK FALSE
