SPECIFICATION Spec
CONSTANTS
    NDocs = 7
    CS = 2
    Dev = {}
INVARIANT Delivered
CHECK_DEADLOCK FALSE
