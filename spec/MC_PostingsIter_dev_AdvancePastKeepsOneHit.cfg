SPECIFICATION Spec
CONSTANTS
    N = 4
    ChunkSizes = {2, 3}
    MaxOps = 100
    Dev = {"AdvancePastKeepsOneHit"}
VIEW view
INVARIANT AllInv
CHECK_DEADLOCK FALSE
