------------------------------ MODULE StoredRead ------------------------------
(***************************************************************************)
(* Level I: VisitStoredFields (segment.go, read.go) - who owns the         *)
(* decompressed stored-field block (C06, C09).                             *)
(*                                                                         *)
(* A visit of document d by process p:                                     *)
(*   get     take a per-call context from the pool (sync.Pool: any free    *)
(*           context, or a new one)                                        *)
(*   decomp  decompress the block of d into the context's buffer; the      *)
(*           buffer is reallocated iff its capacity is too small           *)
(*           (klauspost DecodeAll: new capacity = size + Slack)            *)
(*   slice   read the two length prefixes of d's record and slice meta and *)
(*           data out of the buffer                                        *)
(*   cb(i)   call the visitor for the i-th stored value (it aliases the    *)
(*           buffer); a callback may start a nested visit                  *)
(*   ret     put the context back                                          *)
(* Every step of every process may interleave with every step of the       *)
(* others.  Invariants: whatever a visit reads or hands to its visitor     *)
(* comes from the block of ITS document, and no slice leaves [0, cap].     *)
(*                                                                         *)
(* Deviations (the pinned code had both):                                  *)
(*   "SharedCache"  the buffer is a field of the shared Segment            *)
(*   "LookAhead"    the length prefixes are read with a fixed look-ahead   *)
(*                  of Look bytes instead of "what is left of the block"   *)
(*   "PutEarly"     the context is back in the pool while its buffer is    *)
(*                  still being read (seeded C09-n, C06-l)                 *)
(***************************************************************************)
EXTENDS Integers, Sequences, FiniteSets, TLC, Json

CONSTANTS Procs,
          Blocks,      \* block ids (positive integers)
          Size,        \* function: block -> decompressed size
          Short,       \* function: block -> length of its last (shortest) record
          Slack,       \* extra capacity DecodeAll allocates
          Look,        \* the fixed look-ahead of the deviation
          Values,      \* stored values per document (callbacks per visit)
          MaxVisits,   \* top-level visits per process
          MaxDepth,    \* nesting depth of visits inside callbacks
          MaxCtx,      \* bound on contexts ever created (sync.Pool may create new ones at will)
          Dev

\* a document is (block, position) with position "first" or "last" record of the block
Docs == [blk : Blocks, last : BOOLEAN]
OffsetOf(d) == IF d.last THEN Size[d.blk] - Short[d.blk] ELSE 0

VARIABLES
    stack,    \* process -> sequence of frames [doc, ctx, pc, i]   (nested visits are deeper frames)
    visits,   \* process -> top-level visits started
    free,     \* contexts currently in the pool
    nctx,     \* contexts ever created
    buf,      \* context -> [blk, len, cap]     (context 0 = the shared buffer of the deviation)
    bad,      \* monitor: "ok", or what went wrong first
    hist

vars == <<stack, visits, free, nctx, buf, bad, hist>>
view == <<stack, visits, free, nctx, buf, bad>>

NoBuf == [blk |-> 0, len |-> 0, cap |-> 0]

Init ==
    /\ stack = [p \in Procs |-> <<>>]
    /\ visits = [p \in Procs |-> 0]
    /\ free = {} /\ nctx = 0
    /\ buf = [c \in {0} |-> NoBuf]
    /\ bad = "ok"
    /\ hist = <<>>

Top(p) == stack[p][Len(stack[p])]
SetTop(p, f) == [stack EXCEPT ![p] = [@ EXCEPT ![Len(@)] = f]]
Log(p, what, d) == hist' = Append(hist, [p |-> p, at |-> what, blk |-> d.blk, last |-> d.last, depth |-> Len(stack[p])])

CtxOf(f) == IF "SharedCache" \in Dev THEN 0 ELSE f.ctx

\* start a visit: top level, or nested from inside a callback of the current frame
Start(p, d) ==
    /\ \/ (stack[p] = <<>> /\ visits[p] < MaxVisits /\ visits' = [visits EXCEPT ![p] = @ + 1])
       \/ (stack[p] # <<>> /\ Top(p).pc = "incb" /\ Len(stack[p]) <= MaxDepth /\ UNCHANGED visits)
    /\ stack' = [stack EXCEPT ![p] = Append(@, [doc |-> d, ctx |-> -1, pc |-> "get", i |-> 0])]
    /\ UNCHANGED <<free, nctx, buf, bad, hist>>

Get(p) ==
    /\ stack[p] # <<>> /\ Top(p).pc = "get"
    /\ \/ \E c \in free :                                   \* a recycled context keeps its buffer
             /\ free' = free \ {c}
             /\ stack' = SetTop(p, [Top(p) EXCEPT !.ctx = c, !.pc = "decomp"])
             /\ UNCHANGED <<nctx, buf>>
       \/ /\ nctx < MaxCtx
          /\ nctx' = nctx + 1                               \* sync.Pool may hand out a new one at will
          /\ buf' = (nctx + 1 :> NoBuf) @@ buf
          /\ stack' = SetTop(p, [Top(p) EXCEPT !.ctx = nctx + 1, !.pc = "decomp"])
          /\ UNCHANGED free
    /\ UNCHANGED <<visits, bad, hist>>

Decomp(p) ==
    /\ stack[p] # <<>> /\ Top(p).pc = "decomp"
    /\ LET f == Top(p)  c == CtxOf(f)  sz == Size[f.doc.blk] IN
       /\ buf' = [buf EXCEPT ![c] = [blk |-> f.doc.blk, len |-> sz,
                                     cap |-> IF @.cap < sz THEN sz + Slack ELSE @.cap]]
       /\ stack' = SetTop(p, [f EXCEPT !.pc = "slice"])
       /\ Log(p, "decomp", f.doc)                            \* gate "stored:decompressed"
       \* deviation "PutEarly": the context goes back to the pool as soon as the block is decompressed, while its
       \* buffer is still being read (a helper with `defer Put` that returns the buffer - seeded C09-n; a second Put
       \* on an error path has the same effect - seeded C06-l)
       /\ free' = IF "PutEarly" \in Dev /\ f.ctx > 0 THEN free \cup {f.ctx} ELSE free
    /\ UNCHANGED <<visits, nctx, bad>>

\* reading the length prefixes and slicing the record
Slice(p) ==
    /\ stack[p] # <<>> /\ Top(p).pc = "slice"
    /\ LET f == Top(p)  b == buf[CtxOf(f)]  off == OffsetOf(f.doc)
           hi == IF "LookAhead" \in Dev THEN off + Look ELSE b.len
       IN /\ bad' = IF bad # "ok" THEN bad
                    ELSE IF b.blk # f.doc.blk THEN "foreign block sliced"
                    ELSE IF hi > b.cap THEN "slice beyond capacity"
                    ELSE "ok"
          /\ stack' = SetTop(p, [f EXCEPT !.pc = IF Values = 0 THEN "ret" ELSE "cb", !.i = 1])
    /\ UNCHANGED <<visits, free, nctx, buf, hist>>

\* the visitor is entered with a value that aliases the buffer
CbEnter(p) ==
    /\ stack[p] # <<>> /\ Top(p).pc = "cb"
    /\ LET f == Top(p)  b == buf[CtxOf(f)] IN
       /\ bad' = IF bad = "ok" /\ b.blk # f.doc.blk THEN "visitor got another document's bytes" ELSE bad
       /\ stack' = SetTop(p, [f EXCEPT !.pc = "incb"])
       /\ Log(p, "cb", f.doc)                                \* callbacks are gate points
    /\ UNCHANGED <<visits, free, nctx, buf>>

\* the visitor copies the value and returns (the copy is what the caller keeps)
CbLeave(p) ==
    /\ stack[p] # <<>> /\ Top(p).pc = "incb"
    /\ LET f == Top(p)  b == buf[CtxOf(f)] IN
       /\ bad' = IF bad = "ok" /\ b.blk # f.doc.blk THEN "value changed under the visitor" ELSE bad
       /\ stack' = SetTop(p, [f EXCEPT !.pc = IF f.i >= Values THEN "ret" ELSE "cb", !.i = @ + 1])
    /\ UNCHANGED <<visits, free, nctx, buf, hist>>

Ret(p) ==
    /\ stack[p] # <<>> /\ Top(p).pc = "ret"
    /\ free' = IF Top(p).ctx > 0 THEN free \cup {Top(p).ctx} ELSE free
    /\ stack' = [stack EXCEPT ![p] = SubSeq(@, 1, Len(@) - 1)]
    /\ Log(p, "ret", Top(p).doc)
    /\ UNCHANGED <<visits, nctx, buf, bad>>

Step(p) == (\E d \in Docs : Start(p, d)) \/ Get(p) \/ Decomp(p) \/ Slice(p) \/ CbEnter(p) \/ CbLeave(p) \/ Ret(p)
Next == \E p \in Procs : Step(p)
Spec == Init /\ [][Next]_vars

-----------------------------------------------------------------------------
Correct == bad = "ok"            \* C06/C09: only the visit's own block is read; slices stay inside the buffer

\* a context is never used by two frames at once (ownership)
Exclusive ==
    \A p, q \in Procs : \A i \in DOMAIN stack[p] : \A j \in DOMAIN stack[q] :
        (stack[p][i].ctx > 0 /\ stack[p][i].ctx = stack[q][j].ctx) => (p = q /\ i = j)
PoolDisjoint == \A p \in Procs : \A i \in DOMAIN stack[p] : stack[p][i].ctx \notin free

Done == \A p \in Procs : stack[p] = <<>> /\ visits[p] = MaxVisits
EmitDone == Done => PrintT(<<"BEHAVIOUR", ToJson([hist |-> hist])>>)

\* model values for the configurations: the second block is a little larger than the first and
\* ends in a record shorter than the look-ahead
McSize == (1 :> 4) @@ (2 :> 6)
McShort == (1 :> 1) @@ (2 :> 1)

=============================================================================
