------------------------------- MODULE FstCache -------------------------------
(***************************************************************************)
(* Level I: Segment.dictionary (segment.go) - the lazily filled FST cache  *)
(* under the segment mutex, with storage that may start failing at any     *)
(* moment (C09, C19).                                                      *)
(*                                                                         *)
(* One process = one goroutine calling Dictionary(field) repeatedly.       *)
(* Program counters follow the code:                                       *)
(*   idle -> lookup (fieldsMap; unknown field or dictStart = 0 returns     *)
(*   at once) -> lock (blocks while the mutex is held) -> check (cache     *)
(*   hit?) -> read1 (length prefix) -> read2 (FST bytes) -> load           *)
(*   (vellum.Load, cache insert) -> unlock -> reader (fst.Reader()) -> idle*)
(* read1/read2 fail when the storage is down.  The pinned code returned    *)
(* from those two failures WITHOUT releasing the mutex; that behaviour is  *)
(* kept as the named deviation "LeakLock" (off in the design as repaired). *)
(* Deviation "UnlockedHit" reads the cache map before taking the lock (a   *)
(* plausible "optimisation") and must trip the lockset invariant.          *)
(***************************************************************************)
EXTENDS Integers, Sequences, FiniteSets, TLC, Json

CONSTANTS Procs, Fields,   \* Fields: the known fields that have a dictionary
          Unknown,         \* a field name the segment does not have
          MaxCalls,        \* calls per process
          Dev

VARIABLES pc, arg, mu, cache, storageOK, calls, result, touched, hist

vars == <<pc, arg, mu, cache, storageOK, calls, result, touched, hist>>
view == <<pc, arg, mu, cache, storageOK, calls, result, touched>>

Free == 0      \* process ids are positive integers

Init ==
    /\ pc = [p \in Procs |-> "idle"]
    /\ arg = [p \in Procs |-> Unknown]
    /\ mu = Free
    /\ cache = {}                      \* fields whose FST is cached
    /\ storageOK = TRUE
    /\ calls = [p \in Procs |-> 0]
    /\ result = [p \in Procs |-> "none"]
    /\ touched = "ok"                  \* lockset monitor: "race" once the map is touched without the mutex
    /\ hist = <<>>

Log(p, what) == hist' = Append(hist, [p |-> p, at |-> what, f |-> arg[p]])

Call(p, f) ==
    /\ pc[p] = "idle" /\ calls[p] < MaxCalls
    /\ arg' = [arg EXCEPT ![p] = f]
    /\ calls' = [calls EXCEPT ![p] = @ + 1]
    /\ result' = [result EXCEPT ![p] = "none"]
    /\ pc' = [pc EXCEPT ![p] = "lookup"]
    /\ hist' = Append(hist, [p |-> p, at |-> "call", f |-> f])
    /\ UNCHANGED <<mu, cache, storageOK, touched>>

Lookup(p) ==
    /\ pc[p] = "lookup"
    /\ IF arg[p] = Unknown
       THEN /\ pc' = [pc EXCEPT ![p] = "idle"] /\ result' = [result EXCEPT ![p] = "empty"]
            /\ UNCHANGED touched
       ELSE IF "UnlockedHit" \in Dev /\ arg[p] \in cache
       THEN /\ pc' = [pc EXCEPT ![p] = "reader"] /\ UNCHANGED result
            /\ touched' = IF mu # Free /\ mu # p THEN "race" ELSE touched   \* map read while another holds the lock
       ELSE /\ pc' = [pc EXCEPT ![p] = "lock"] /\ UNCHANGED <<result, touched>>
    /\ UNCHANGED <<arg, mu, cache, storageOK, calls, hist>>

Lock(p) ==
    /\ pc[p] = "lock" /\ mu = Free
    /\ mu' = p
    /\ pc' = [pc EXCEPT ![p] = "check"]
    /\ UNCHANGED <<arg, cache, storageOK, calls, result, touched, hist>>

Check(p) ==
    /\ pc[p] = "check"
    /\ pc' = [pc EXCEPT ![p] = IF arg[p] \in cache THEN "unlock" ELSE "read1"]
    /\ (IF arg[p] \notin cache THEN Log(p, "fst:load") ELSE UNCHANGED hist)     \* the gate point of the hook
    /\ UNCHANGED <<arg, mu, cache, storageOK, calls, result, touched>>

FailExit(p) ==      \* an error return from inside the critical section
    /\ pc' = [pc EXCEPT ![p] = "idle"]
    /\ result' = [result EXCEPT ![p] = "err"]
    /\ mu' = IF "LeakLock" \in Dev THEN mu ELSE Free

Read(p, from, to) ==
    /\ pc[p] = from
    /\ IF storageOK
       THEN pc' = [pc EXCEPT ![p] = to] /\ UNCHANGED <<mu, result>>
       ELSE FailExit(p)
    /\ UNCHANGED <<arg, cache, storageOK, calls, touched, hist>>

Load(p) ==
    /\ pc[p] = "load"
    /\ cache' = cache \cup {arg[p]}
    /\ pc' = [pc EXCEPT ![p] = "unlock"]
    /\ UNCHANGED <<arg, mu, storageOK, calls, result, touched, hist>>

Unlock(p) ==
    /\ pc[p] = "unlock"
    /\ mu' = Free
    /\ pc' = [pc EXCEPT ![p] = "reader"]
    /\ UNCHANGED <<arg, cache, storageOK, calls, result, touched, hist>>

Reader(p) ==
    /\ pc[p] = "reader"
    /\ pc' = [pc EXCEPT ![p] = "idle"]
    /\ result' = [result EXCEPT ![p] = "ok"]
    /\ Log(p, "done")
    /\ UNCHANGED <<arg, mu, cache, storageOK, calls, touched>>

StorageFails ==
    /\ storageOK /\ storageOK' = FALSE
    /\ hist' = Append(hist, [p |-> 0, at |-> "storage-fails", f |-> Unknown])
    /\ UNCHANGED <<pc, arg, mu, cache, calls, result, touched>>

Step(p) ==
    \/ \E f \in Fields \cup {Unknown} : Call(p, f)
    \/ Lookup(p) \/ Lock(p) \/ Check(p)
    \/ Read(p, "read1", "read2") \/ Read(p, "read2", "load")
    \/ Load(p) \/ Unlock(p) \/ Reader(p)

Next == (\E p \in Procs : Step(p)) \/ StorageFails

Fairness == \A p \in Procs :
    WF_vars(Lookup(p) \/ Lock(p) \/ Check(p) \/ Read(p, "read1", "read2") \/ Read(p, "read2", "load")
            \/ Load(p) \/ Unlock(p) \/ Reader(p))

Spec == Init /\ [][Next]_vars /\ Fairness
GenSpec == Init /\ [][Next]_vars

-----------------------------------------------------------------------------
(* Properties *)

InCS(p) == pc[p] \in {"check", "read1", "read2", "load", "unlock"}

\* the mutex is held exactly by the process inside the critical section (C19: never leaked)
MutexMatchesCS ==
    /\ \A p \in Procs : InCS(p) => mu = p
    /\ (mu # Free) => InCS(mu)

NoCallActiveMeansFree == (\A p \in Procs : pc[p] = "idle") => mu = Free

LocksetDiscipline == touched = "ok"                     \* C09: the map is only touched under the mutex

\* a call that returned "ok" found (or cached) the FST of its field
OkMeansCached == \A p \in Procs : (result[p] = "ok" /\ pc[p] = "idle") => arg[p] \in cache

\* C19 liveness: every call returns (needs the fairness above; no state constraint)
CallsReturn == \A p \in Procs : (pc[p] # "idle") ~> (pc[p] = "idle")

-----------------------------------------------------------------------------
(* E2: emit every complete behaviour's schedule (projected to what the real code lets us force) *)

Done == \A p \in Procs : pc[p] = "idle" /\ calls[p] = MaxCalls

EmitDone ==
    Done => PrintT(<<"BEHAVIOUR", ToJson([hist |-> hist, failed |-> ~storageOK,
                                          calls |-> [p \in Procs |-> SelectSeq(hist, LAMBDA h : h.p = p /\ h.at = "call")]])>>)

=============================================================================
