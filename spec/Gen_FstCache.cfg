SPECIFICATION GenSpec
CONSTANTS
    Procs = {1, 2}
    Fields = {"a", "b"}
    Unknown = "zz"
    MaxCalls = 2
    Dev = {}
INVARIANT EmitDone
CHECK_DEADLOCK FALSE
