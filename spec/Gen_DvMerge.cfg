SPECIFICATION GenSpec
CONSTANTS
    NSegs = 4
    MaxDocs = 3
    Dev = {}
INVARIANT Emit
CHECK_DEADLOCK FALSE
