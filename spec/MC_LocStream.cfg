SPECIFICATION Spec
CONSTANTS
    FieldIds = {0, 127, 128}
    PosVals = {1, 128}
    StartVals = {0}
    EndVals = {5, 16384}
    MaxPostings = 2
    MaxLocs = 2
    Dev = {}
INVARIANT AllInv
CHECK_DEADLOCK FALSE
