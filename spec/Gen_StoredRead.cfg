SPECIFICATION Spec
CONSTANTS
    Procs = {1, 2}
    Blocks = {1, 2}
    Size <- McSize
    Short <- McShort
    Slack = 2
    Look = 3
    Values = 2
    MaxVisits = 1
    MaxDepth = 1
    MaxCtx = 3
    Dev = {}
INVARIANT EmitDone
CHECK_DEADLOCK FALSE
