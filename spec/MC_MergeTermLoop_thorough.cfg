SPECIFICATION Spec
CONSTANTS
    Terms = {0, 1}
    SegDocs <- McSegDocs22
    Dev = {}
INVARIANT AllRight
CHECK_DEADLOCK FALSE
