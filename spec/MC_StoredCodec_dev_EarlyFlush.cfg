SPECIFICATION Spec
CONSTANTS
    MaxDocs = 8
    BS = 3
    ReaderBS = 3
    Dev = {"EarlyFlush"}
INVARIANTS BuiltReadsBack TableShape MergedReadsBack
CHECK_DEADLOCK FALSE
