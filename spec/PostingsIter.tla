----------------------------- MODULE PostingsIter -----------------------------
(***************************************************************************)
(* Level I: the postings iterator (posting.go), transcribed.               *)
(*                                                                         *)
(* A postings list is a set `post` of document numbers; its freq/norm      *)
(* entries are stored in one stream per chunk (chunk = doc \div cs), and   *)
(* the postings in `hasLocs` additionally have one entry in the location   *)
(* stream of their chunk.  The iterator keeps THREE cursors in step:       *)
(*   - `allPos`  into the full bitmap            (PostingsIterator.all)    *)
(*   - `actPos`  into the actual bitmap          (PostingsIterator.Actual) *)
(*   - (fnChunk, fnPos) / (locChunk, locPos) into the decoded streams      *)
(* Without an exclusion bitmap `Actual` and `all` are the SAME iterator    *)
(* object ("clean" path, nextDocNumAtOrAfterClean); with one, or after     *)
(* ReplaceActual, they are different objects walked in lock step           *)
(* (nextDocNumAtOrAfter).  A list with one posting may be 1-hit encoded.   *)
(*                                                                         *)
(* Each call is one atomic action (the iterator is a sequential object);   *)
(* the loops of the code are recursive operators.  The refinement          *)
(* invariants say that what a call returns is what Level A                 *)
(* (IceData!IterAdvance) prescribes and that the stream entries it         *)
(* consumed belong to the returned document (C05).  Because no history is  *)
(* part of the view, TLC covers every call sequence.                       *)
(***************************************************************************)
EXTENDS Integers, Sequences, FiniteSets, TLC, SequencesExt, Json

CONSTANTS N,            \* documents are 0..N-1
          ChunkSizes,   \* set of chunk sizes to explore
          MaxOps,       \* bound on the emitted history (generation only)
          Dev           \* named deviations from the code, {} = the design as coded; non-empty only in
                        \* the sensitivity runs, which must VIOLATE an invariant (the invariants are not vacuous)

Docs == 0..(N - 1)
Sorted(S) == SetToSortSeq(S, <)

VARIABLES
    cfg,     \* [post, hasLocs, exNil, except, cs, fn, locs, onehit, repl, replace]
    it,      \* the iterator's cursors (see Fresh)
    last,    \* Level-A cursor: last returned document, -1 before the first, N+9 after the end
    target,  \* last Advance target (targets are non-decreasing)
    ret,     \* result of the last call: [doc, fnEntry, locEntry]
    hist,    \* emitted history (not part of the view)
    fin      \* generation: history was emitted

vars == <<cfg, it, last, target, ret, hist, fin>>
view == <<cfg, it, last, target, ret>>

None == -1
Ended == N + 9

-----------------------------------------------------------------------------
(* Configuration-derived values *)

AllSeq == Sorted(cfg.post)
Actual == IF cfg.repl THEN cfg.replace
          ELSE IF cfg.exNil THEN cfg.post ELSE cfg.post \ cfg.except
ActSeq == Sorted(Actual)
\* the code takes the clean path iff ActualBM is the postings bitmap itself
Clean == cfg.exNil /\ ~cfg.repl

ChunkOf(d) == d \div cfg.cs
Stream(c) == SelectSeq(AllSeq, LAMBDA d : ChunkOf(d) = c)        \* freq/norm entries of chunk c
LocStream(c) == SelectSeq(Stream(c), LAMBDA d : d \in cfg.hasLocs)

Fresh == [allPos |-> 0, actPos |-> 0, currChunk |-> 0,
          fnChunk |-> None, fnPos |-> 0, locChunk |-> None, locPos |-> 0,
          hitDone |-> FALSE, crash |-> FALSE]

-----------------------------------------------------------------------------
(* Transcription of the decoder side *)

LoadChunk(i, c) ==                       \* PostingsIterator.loadChunk
    [i EXCEPT !.currChunk = c,
              !.fnChunk = IF cfg.fn THEN c ELSE @, !.fnPos = IF cfg.fn THEN 0 ELSE @,
              !.locChunk = IF cfg.locs THEN c ELSE @, !.locPos = IF cfg.locs THEN 0 ELSE @]

NeedLoad(i, c) == i.currChunk # c \/ i.fnChunk = None     \* currChunk != nChunk || freqNormReader.isNil()

\* currChunkNext: skip one freq/norm entry (and its locations) of chunk c
CurrChunkNext(i, c) ==
    LET i1 == IF NeedLoad(i, c) THEN LoadChunk(i, c) ELSE i
        s  == Stream(i1.fnChunk)
    IN IF i1.fnPos >= Len(s) THEN [i1 EXCEPT !.crash = TRUE]       \* read past the stream
       ELSE LET d  == s[i1.fnPos + 1]
                i2 == [i1 EXCEPT !.fnPos = @ + 1]
            IN IF cfg.locs /\ d \in cfg.hasLocs /\ "SkipIgnoresLocs" \notin Dev
               THEN IF i2.locPos >= Len(LocStream(i2.locChunk)) THEN [i2 EXCEPT !.crash = TRUE]
                    ELSE [i2 EXCEPT !.locPos = @ + 1]
               ELSE i2

-----------------------------------------------------------------------------
(* nextDocNumAtOrAfter: returns [i |-> cursors, doc |-> document or None] *)

\* roaring AdvanceIfNeeded(minval): move forward to the first value >= minval
RECURSIVE AdvIfNeeded(_, _, _)
AdvIfNeeded(seq, pos, minval) ==
    IF pos < Len(seq) /\ seq[pos + 1] < minval THEN AdvIfNeeded(seq, pos + 1, minval) ELSE pos

\* the lock-step loop `for allN != n` of the exclusion path
RECURSIVE AllLoop(_, _, _)
AllLoop(i, n, nChunk) ==
    IF i.allPos >= Len(AllSeq) THEN [i EXCEPT !.crash = TRUE]
    ELSE LET allN == AllSeq[i.allPos + 1]
             i1   == [i EXCEPT !.allPos = @ + 1]
         IN IF allN = n THEN i1
            ELSE AllLoop(IF cfg.fn /\ (IF "StrictReach" \in Dev THEN allN > nChunk * cfg.cs ELSE allN >= nChunk * cfg.cs)
                               /\ ("ReachOnlyLoaded" \in Dev => i1.currChunk = nChunk)      \* seeded C17-k: "a chunk that is just being entered is loaded below anyway"
                         THEN CurrChunkNext(i1, nChunk) ELSE i1,
                         n, nChunk)

ExclusionPath(i, a) ==
    LET p == AdvIfNeeded(ActSeq, i.actPos, a) IN
    IF p >= Len(ActSeq) THEN [i |-> [i EXCEPT !.actPos = p], doc |-> None]
    ELSE LET n      == ActSeq[p + 1]
             nChunk == ChunkOf(n)
             i1     == AllLoop([i EXCEPT !.actPos = p + 1], n, nChunk)
             i2     == IF cfg.fn /\ NeedLoad(i1, nChunk) THEN LoadChunk(i1, nChunk) ELSE i1
         IN [i |-> i2, doc |-> n]

\* the clean path: Actual and all are one iterator; count the same-chunk skips
RECURSIVE CleanLoop(_, _, _, _, _)
CleanLoop(pos, n, nChunk, same, a) ==      \* returns <<pos, n, nChunk, sameChunkNexts>>
    IF n < a /\ pos < Len(AllSeq)
    THEN LET n2 == AllSeq[pos + 1]
             c2 == ChunkOf(n2)
         IN CleanLoop(pos + 1, n2, c2, IF c2 # nChunk /\ "NoSameChunkReset" \notin Dev THEN 0 ELSE same + 1, a)
    ELSE <<pos, n, nChunk, same>>

RECURSIVE Repeat(_, _, _)
Repeat(i, c, k) == IF k = 0 THEN i ELSE Repeat(CurrChunkNext(i, c), c, k - 1)

CleanPath(i, a) ==
    IF ~cfg.fn
    THEN LET p == AdvIfNeeded(AllSeq, i.actPos, a) IN
         IF p >= Len(AllSeq) THEN [i |-> [i EXCEPT !.actPos = p, !.allPos = p], doc |-> None]
         ELSE [i |-> [i EXCEPT !.actPos = p + 1, !.allPos = p + 1], doc |-> AllSeq[p + 1]]
    ELSE LET n0 == AllSeq[i.actPos + 1]
             r  == CleanLoop(i.actPos + 1, n0, ChunkOf(n0), 0, a)
             i1 == [i EXCEPT !.actPos = r[1], !.allPos = r[1]]
         IN IF r[2] < a THEN [i |-> i1, doc |-> None]
            ELSE LET \* seeded C05-k: a "far seek" that positions the bitmap at the target's chunk start - but tests
                     \* "another chunk" against the LOADED chunk, not the chunk of the posting already consumed (n0):
                     \* when n0 opens a chunk that is not loaded yet, nothing is skipped for n0..r[2]
                     far == "FarSeekLoadedChunk" \in Dev /\ r[3] > i.currChunk /\ ChunkOf(n0) = r[3] /\ r[2] # n0
                     i2 == IF far THEN i1 ELSE Repeat(i1, r[3], r[4])
                     i3 == IF NeedLoad(i2, r[3]) THEN LoadChunk(i2, r[3]) ELSE i2
                 IN [i |-> i3, doc |-> r[2]]

OneHitPath(i, a) ==
    LET d == CHOOSE x \in cfg.post : TRUE
        excluded == ~cfg.exNil /\ d \in cfg.except      \* decided when the iterator is created
    IN IF i.hitDone \/ excluded THEN [i |-> [i EXCEPT !.hitDone = TRUE], doc |-> None]
       ELSE IF (IF "OneHitLeq" \in Dev THEN d <= a ELSE d < a)
            THEN [i |-> [i EXCEPT !.hitDone = ("AdvancePastKeepsOneHit" \notin Dev)], doc |-> None]     \* seeded C02-o: the two early exits folded, the "finished" store lost
       ELSE [i |-> [i EXCEPT !.hitDone = TRUE], doc |-> d]

NextDocNum(i, a) ==
    IF cfg.onehit THEN OneHitPath(i, a)
    ELSE IF i.actPos >= Len(ActSeq) THEN [i |-> i, doc |-> None]     \* !Actual.HasNext()
    ELSE IF Clean THEN CleanPath(i, a)
    ELSE ExclusionPath(i, a)

\* nextAtOrAfter: find the document, then read its freq/norm entry and its locations
Call(i, a) ==
    LET r == NextDocNum(i, a) IN
    IF r.doc = None \/ ~cfg.fn \/ cfg.onehit
    THEN [i |-> r.i, doc |-> r.doc, fnEntry |-> None, locEntry |-> None]
    ELSE LET s == Stream(r.i.fnChunk) IN
         IF r.i.fnChunk = None \/ r.i.fnPos >= Len(s)
         THEN [i |-> [r.i EXCEPT !.crash = TRUE], doc |-> r.doc, fnEntry |-> None, locEntry |-> None]
         ELSE LET e  == s[r.i.fnPos + 1]
                  i1 == [r.i EXCEPT !.fnPos = @ + 1]
              IN IF cfg.locs /\ e \in cfg.hasLocs
                 THEN LET ls == LocStream(i1.locChunk) IN
                      IF i1.locChunk = None \/ i1.locPos >= Len(ls)
                      THEN [i |-> [i1 EXCEPT !.crash = TRUE], doc |-> r.doc, fnEntry |-> e, locEntry |-> None]
                      ELSE [i |-> [i1 EXCEPT !.locPos = @ + 1], doc |-> r.doc, fnEntry |-> e,
                            locEntry |-> ls[i1.locPos + 1]]
                 ELSE [i |-> i1, doc |-> r.doc, fnEntry |-> e, locEntry |-> None]

-----------------------------------------------------------------------------
(* Level A *)

Expected(a) ==
    LET cand == {d \in Actual : d > last /\ d >= a} IN
    IF cand = {} THEN None ELSE CHOOSE d \in cand : \A x \in cand : d <= x

CountA == IF cfg.exNil THEN Cardinality(cfg.post) ELSE Cardinality(cfg.post \ cfg.except)

-----------------------------------------------------------------------------
(* The state machine *)

Configs ==
    {c \in [post : SUBSET Docs, hasLocs : SUBSET Docs, exNil : BOOLEAN, except : SUBSET Docs,
            cs : ChunkSizes, fn : BOOLEAN, locs : BOOLEAN, onehit : BOOLEAN,
            repl : BOOLEAN, replace : SUBSET Docs] :
        /\ (c.exNil => c.except = {}) /\ (~c.repl => c.replace = {})
        /\ c.hasLocs \subseteq c.post
        /\ (c.locs => c.fn)                          \* includeFreqNorm = freq \/ norm \/ locs
        /\ (~c.locs => c.hasLocs = {})               \* location flags are irrelevant without the locs flag
        /\ (c.onehit => Cardinality(c.post) = 1 /\ c.hasLocs = {} /\ ~c.repl)
        /\ (c.repl => c.replace \subseteq c.post /\ c.exNil)}   \* contract of ReplaceActual

Init ==
    /\ cfg \in Configs
    /\ it = Fresh /\ last = -1 /\ target = 0
    /\ ret = [doc |-> None, fnEntry |-> None, locEntry |-> None, exp |-> None, op |-> "init", a |-> 0]
    /\ hist = <<>> /\ fin = FALSE

Do(op, a) ==
    LET r == Call(it, a)
        e == Expected(a)
    IN /\ ~fin /\ Len(hist) < MaxOps
       /\ it' = r.i
       /\ ret' = [doc |-> r.doc, fnEntry |-> r.fnEntry, locEntry |-> r.locEntry, exp |-> e, op |-> op, a |-> a]
       /\ last' = IF e = None THEN Ended ELSE e
       /\ hist' = Append(hist, [op |-> op, d |-> a, exp |-> e])
       /\ UNCHANGED <<cfg, fin>>

Next1 == Do("next", 0) /\ UNCHANGED target
Advance(a) == a >= target /\ Do("adv", a) /\ target' = a

\* generation: print the behaviour once (simulation mode ends the behaviour here)
Emit ==
    /\ ~fin /\ hist # <<>>
    /\ (Len(hist) >= MaxOps \/ last = Ended)
    /\ PrintT(<<"BEHAVIOUR", ToJson([cfg |-> [post |-> Sorted(cfg.post), hasLocs |-> Sorted(cfg.hasLocs),
                                              except |-> IF cfg.exNil THEN [kind |-> "nil", docs |-> <<>>]
                                                         ELSE [kind |-> "set", docs |-> Sorted(cfg.except)],
                                              cs |-> cfg.cs, fn |-> cfg.fn, locs |-> cfg.locs, onehit |-> cfg.onehit,
                                              replace |-> IF ~cfg.repl THEN [kind |-> "none", docs |-> <<>>]
                                                          ELSE [kind |-> "set", docs |-> Sorted(cfg.replace)],
                                              n |-> N],
                                     ops |-> hist, count |-> CountA])>>)
    /\ fin' = TRUE
    /\ UNCHANGED <<cfg, it, last, target, ret, hist>>

Next == Next1 \/ (\E a \in 0..(N + 1) : Advance(a))

Spec == Init /\ [][Next]_vars

\* Generation (E2): `tlc -simulate` draws one random configuration per behaviour, component by
\* component (enumerating Configs for N = 6..8 as initial states would take minutes), walks it
\* with random Next/Advance calls and prints the behaviour.
Pick(S) == RandomElement(S)
RandomConfig(dummy) ==       \* the (state-level) parameter keeps TLC from caching this as a constant
    LET post    == Pick(SUBSET Docs)
        locs    == Pick(BOOLEAN)
        fn      == locs \/ Pick(BOOLEAN)
        onehit  == Cardinality(post) = 1 /\ Pick(BOOLEAN)
        hasLocs == IF locs /\ ~onehit THEN Pick(SUBSET post) ELSE {}
        exNil   == Pick({TRUE, FALSE, FALSE})
        except  == IF exNil THEN {} ELSE Pick(SUBSET Docs)
        repl    == exNil /\ ~onehit /\ Pick({TRUE, FALSE, FALSE, FALSE})
    IN [post |-> post, hasLocs |-> hasLocs, exNil |-> exNil, except |-> except, cs |-> Pick(ChunkSizes),
        fn |-> fn, locs |-> locs, onehit |-> onehit, repl |-> repl,
        replace |-> IF repl THEN Pick(SUBSET post) ELSE {}]

EmptyCfg == [post |-> {}, hasLocs |-> {}, exNil |-> TRUE, except |-> {}, cs |-> 1, fn |-> FALSE, locs |-> FALSE,
             onehit |-> FALSE, repl |-> FALSE, replace |-> {}]

GenInit ==
    /\ cfg = EmptyCfg /\ it = Fresh /\ last = -2 /\ target = 0
    /\ ret = [doc |-> None, fnEntry |-> None, locEntry |-> None, exp |-> None, op |-> "init", a |-> 0]
    /\ hist = <<>> /\ fin = FALSE

GenChoose == last = -2 /\ cfg' = RandomConfig(hist) /\ last' = -1 /\ UNCHANGED <<it, target, ret, hist, fin>>

GenNext == (last = -2 /\ GenChoose) \/ (last # -2 /\ (Next \/ Emit))
GenSpec == GenInit /\ [][GenNext]_vars

-----------------------------------------------------------------------------
(* Refinement invariants (C05) *)

NoCrash == ~it.crash                          \* never reads past a stream (index out of range in the code)
RightDoc == ret.op # "init" => ret.doc = ret.exp
RightEntries ==
    (ret.op # "init" /\ ret.doc # None /\ cfg.fn /\ ~cfg.onehit) =>
        /\ ret.fnEntry = ret.doc                                   \* freq/norm of the returned document
        /\ (cfg.locs /\ ret.doc \in cfg.hasLocs) => ret.locEntry = ret.doc
        /\ (cfg.locs /\ ret.doc \notin cfg.hasLocs) => ret.locEntry = None
EndSticky == last = Ended => (\A a \in 0..(N + 1) : Call(it, a).doc = None)

AllInv == NoCrash /\ RightDoc /\ RightEntries /\ EndSticky

=============================================================================
