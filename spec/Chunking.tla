------------------------------ MODULE Chunking ------------------------------
(***************************************************************************)
(* Level I: chunk-size arithmetic shared by writers and readers            *)
(* (chunk.go getChunkSize, intcoder.go newChunkedIntCoder/SetChunkSize,    *)
(* new.go:788, merge.go:448, posting.go:288) - C01, C02, C05.              *)
(*                                                                         *)
(* Builder, merger and reader each derive the chunk size of one term from  *)
(* (chunk mode, the term's cardinality, the segment's document count).     *)
(* The format stores neither, so the three derivations must agree and      *)
(* every document must fall into a chunk the encoder allocated.            *)
(* Deviations: "WriterMaxDocMinus1" (the builder passes len(results)-1),   *)
(* "MergerPreDeleteCard" (the merger sizes chunks by the cardinality       *)
(* before deletions).                                                      *)
(***************************************************************************)
EXTENDS Integers, FiniteSets, TLC

CONSTANTS MaxDocs, Cards, Modes, Dev

ChunkSize(mode, card, maxDocs) ==
    IF mode <= 1024 THEN mode
    ELSE maxDocs \div ((card \div 1024) + 1)          \* chunkModeV1 = 1025

\* newChunkedIntCoder / SetChunkSize(chunkSize, maxDocNum): number of chunk slots
Slots(chunkSize, maxDocNum) == (maxDocNum \div chunkSize) + 1

VARIABLES n, card, dropped, mode
vars == <<n, card, dropped, mode>>

Init == /\ n \in 1..MaxDocs /\ card \in Cards /\ dropped \in {0, 1, 2, 30} /\ mode \in Modes
        /\ card <= n /\ dropped <= card
Next == UNCHANGED vars
Spec == Init /\ [][Next]_vars

\* built segment: writer uses (mode, card, len(results)); reader uses (footer.chunkMode, card, footer.numDocs)
BuilderSize == ChunkSize(mode, card, IF "WriterMaxDocMinus1" \in Dev THEN n - 1 ELSE n)
ReaderSize(c, docs) == ChunkSize(mode, c, docs)

\* merged segment with `dropped` of the term's documents deleted (and as many documents gone)
MergedDocs == n - dropped
MergerSize == ChunkSize(mode, IF "MergerPreDeleteCard" \in Dev THEN card ELSE card - dropped, MergedDocs)

BuilderAgrees == BuilderSize = ReaderSize(card, n)
MergerAgrees == (MergedDocs >= 1 /\ card - dropped >= 1) => MergerSize = ReaderSize(card - dropped, MergedDocs)
Positive == ReaderSize(card, n) >= 1                                       \* no division by zero in doc \div size
InAllocatedChunk ==                                                        \* every document number has a slot
    LET cs == ReaderSize(card, n) IN cs >= 1 => ((n - 1) \div cs) < Slots(cs, n - 1)

=============================================================================
