------------------------------ MODULE CtxReader ------------------------------
(***************************************************************************)
(* Level I: the scratch context of stored-field visits and its meta reader *)
(* (segment.go visitDocument, read.go, visitDocumentCtxPool; the merger    *)
(* keeps ONE context for all documents) - C06, C13.                        *)
(*                                                                         *)
(* A context holds a reader over the meta bytes of the document being      *)
(* visited: (field id, offset, length) entries, one per stored value.      *)
(* visitDocument positions the reader on the document's meta               *)
(* (reader.Reset(meta)) and decodes entries until the reader is exhausted  *)
(* or the visitor returns false.  A visit that was stopped early leaves    *)
(* unread entries in the reader of a context that goes back to the pool.   *)
(*                                                                         *)
(* Invariant: every visit hands its visitor exactly the first values of    *)
(* ITS document (all of them unless it stops) - whichever context it got   *)
(* and whatever the earlier visit on that context left behind.             *)
(* Deviation "ResetOnlyNonEmptyMeta": the reader is re-positioned only     *)
(* when the document has meta bytes (seeded changes C13-f and C06-g).      *)
(* Deviation "NoResetAfterFullRead": a reader that was read to its end is  *)
(* believed to need no reset.                                              *)
(***************************************************************************)
EXTENDS Integers, Sequences, FiniteSets, TLC, Json

CONSTANTS NDocs,        \* documents 1..NDocs; document d stores Vals[d] values
          Vals,         \* sequence: number of stored values per document
          NCtx,         \* contexts in the pool
          MaxVisits,
          Dev

VARIABLES rd,       \* context -> [doc, pos]: the reader stands before entry pos+1 of doc's meta (doc 0: fresh, empty)
          visits,   \* number of visits done
          last,     \* [doc, stop, got] of the last visit: got = sequence of <<doc, index>> delivered
          hist      \* the visits so far (E2)
vars == <<rd, visits, last, hist>>
view == <<rd, visits, last>>

Init == rd = [c \in 1..NCtx |-> [doc |-> 0, pos |-> 0]] /\ visits = 0 /\ last = [doc |-> 0, stop |-> 0, got |-> <<>>] /\ hist = <<>>

EntriesOf(d) == IF d = 0 THEN 0 ELSE Vals[d]

\* one visit of document d on context c whose visitor stops after `stop` values (0 = never)
Visit(c, d, stop) ==
    /\ visits < MaxVisits
    /\ LET skipReset == \/ ("ResetOnlyNonEmptyMeta" \in Dev /\ Vals[d] = 0)
                        \/ ("NoResetAfterFullRead" \in Dev /\ rd[c].doc = d /\ rd[c].pos = EntriesOf(d))
           start == IF skipReset THEN rd[c] ELSE [doc |-> d, pos |-> 0]
           avail == EntriesOf(start.doc) - start.pos                    \* entries the decode loop can still read
           n     == IF stop > 0 /\ stop < avail THEN stop ELSE avail
       IN /\ rd' = [rd EXCEPT ![c] = [doc |-> start.doc, pos |-> start.pos + n]]
          /\ last' = [doc |-> d, stop |-> stop, got |-> [k \in 1..n |-> <<start.doc, start.pos + k>>]]
    /\ visits' = visits + 1
    /\ hist' = Append(hist, [doc |-> d, stop |-> stop])

Next == \E c \in 1..NCtx : \E d \in 1..NDocs : \E stop \in 0..2 : Visit(c, d, stop)
Spec == Init /\ [][Next]_vars

\* what the visitor must have seen
Expected(d, stop) ==
    LET n == IF stop > 0 /\ stop < Vals[d] THEN stop ELSE Vals[d] IN [k \in 1..n |-> <<d, k>>]
OwnValues == last.doc # 0 => last.got = Expected(last.doc, last.stop)

McVals == <<0, 1, 2, 3>>
Emit == (visits = MaxVisits) => PrintT(<<"BEHAVIOUR", ToJson([vals |-> Vals, hist |-> hist])>>)
=============================================================================
