SPECIFICATION Spec
CONSTANTS
    Catalogue <- BuildCatalogue
    Dev = {"FreqAssign"}
    FieldBytes <- McFieldBytes
    NormTable <- McNormTable
INVARIANT AllRefine
CHECK_DEADLOCK FALSE
