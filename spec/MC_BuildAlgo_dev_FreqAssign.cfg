SPECIFICATION Spec
CONSTANTS
    Catalogue <- BuildCatalogue
    Dev = {"FreqAssign"}
    FieldBytes <- McFieldBytes
    NormOf <- McNormOf
INVARIANT AllRefine
CHECK_DEADLOCK FALSE
