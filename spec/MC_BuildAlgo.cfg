SPECIFICATION Spec
CONSTANTS
    Catalogue <- BuildCatalogue
    Dev = {}
    FieldBytes <- McFieldBytes
    NormOf <- McNormOf
INVARIANT AllRefine
CHECK_DEADLOCK FALSE
