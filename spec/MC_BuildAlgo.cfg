SPECIFICATION Spec
CONSTANTS
    Catalogue <- BuildCatalogue
    Dev = {}
    FieldBytes <- McFieldBytes
    NormTable <- McNormTable
INVARIANT AllRefine
CHECK_DEADLOCK FALSE
