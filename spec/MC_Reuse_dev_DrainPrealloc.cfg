SPECIFICATION Spec
CONSTANTS
    Docs = {0, 1, 2}
    MaxLookups = 3
    Dev = {"DrainPrealloc"}
INVARIANTS CountRight IterRight NoCrash FirstRight SharedStaysEmpty
CHECK_DEADLOCK FALSE
