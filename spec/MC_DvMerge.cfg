SPECIFICATION Spec
CONSTANTS
    NSegs = 3
    MaxDocs = 1
    Dev = {}
INVARIANT AllRight
CHECK_DEADLOCK FALSE
