SPECIFICATION Spec
CONSTANTS
    Terms = {0, 1}
    SegDocs <- McSegDocs21
    Dev = {}
INVARIANT AllRight
CHECK_DEADLOCK FALSE
