SPECIFICATION Spec
CONSTANTS
    NSegs = 2
    MaxDocs = 2
    Dev = {"NoDropCheck"}
INVARIANT AllRight
CHECK_DEADLOCK FALSE
