SPECIFICATION Spec
CONSTANTS
    Catalogue <- McCatalogue
    SelIds = {1, 2, 3, 4, 5, 6, 7}
    MaxSegs = 2
    Dev = {"CopyPathIgnoresDrops"}
    FieldBytes <- McFieldBytes
    NormTable <- McNormTable
INVARIANT AllRefine
CHECK_DEADLOCK FALSE
