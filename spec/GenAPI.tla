-------------------------------- MODULE GenAPI --------------------------------
(***************************************************************************)
(* The ice API at Level A as a GENERATIVE state machine: what a client can *)
(* do with segments, files, deletion bitmaps and reusable reader objects,  *)
(* and what each step may change.                                          *)
(*                                                                         *)
(* E1: the frame conditions of the API (C15: no operation changes the      *)
(* content of an existing segment or a caller-owned bitmap; C13: what a    *)
(* lookup yields does not depend on the object it was given as prealloc)   *)
(* are action properties checked over all histories up to MaxOps on the    *)
(* catalogue.  E2: random histories are emitted and executed on the real   *)
(* code with a digest of every live segment and bitmap after every step;   *)
(* Trace_API judges each recorded result against the same IceData.         *)
(*                                                                         *)
(* Handles are indexes into append-only tables.  Objects handed in as      *)
(* prealloc are overwritten in place (that is what reuse means); iterators *)
(* of a list that was reused are dead and may only be reused themselves.   *)
(***************************************************************************)
EXTENDS Catalogue, Json

CONSTANTS Catalogue, MaxOps, BatchIds, Dev

VARIABLES segs,    \* Seq([c : content, kind : "built" | "merged" | "loaded"])
          bms,     \* Seq(SUBSET Nat): caller-owned bitmaps
          pls,     \* Seq([seg, field, term, ex : bitmap handle or 0, gen : generation of the object])
          its,     \* Seq([pl, plgen, idx, closed])
          accs,    \* Seq([val, origin]): statistics objects (origin: the (segment, field) lookup that produced them)
          flists,  \* Seq(Seq(field name)): caller-owned field lists (one Go slice each), handed to DocumentValueReader
          dvrs,    \* Seq([seg, fl]): doc-value readers (fl: the list object they were opened with)
          dits,    \* Seq([seg, field, open]): dictionary iterators that stay open across calls
          hist, last
vars == <<segs, bms, pls, its, accs, flists, dvrs, dits, hist, last>>
view == <<segs, bms, pls, its, accs, flists, dvrs, dits, last>>

Op(o) == hist' = Append(hist, o)
Can == Len(hist) < MaxOps

Init == segs = <<>> /\ bms = <<>> /\ pls = <<>> /\ its = <<>> /\ accs = <<>> /\ flists = <<>> /\ dvrs = <<>> /\ dits = <<>>
        /\ hist = <<>> /\ last = [kind |-> "none"]

NDocs(s) == Len(segs[s].c.docs)
Vocab == {<<"a", <<120>>>>, <<"a", <<121>>>>, <<"b", <<120>>>>, <<"_id", <<48>>>>, <<"a", <<>>>>, <<"zz", <<120>>>>}

GBuild(b) ==
    /\ Can /\ Len(segs) < 3
    /\ segs' = Append(segs, [c |-> Build(Catalogue[b]), kind |-> "built"])
    /\ Op([op |-> "build", batch |-> b, seg |-> Len(segs) + 1])
    /\ last' = [kind |-> "build"] /\ UNCHANGED <<bms, pls, its, accs, flists, dvrs, dits>>

GDefBm(docs) ==
    /\ Can /\ Len(bms) < 2
    /\ bms' = Append(bms, docs)
    /\ Op([op |-> "def_bm", bm |-> Len(bms) + 1, docs |-> SetToSorted(docs, <)])
    /\ last' = [kind |-> "def_bm"] /\ UNCHANGED <<segs, pls, its, accs, flists, dvrs, dits>>

\* Merge(inputs, drops): drops are caller-owned bitmaps (0 = nil)
GMerge(ins, dr) ==
    /\ Can /\ Len(segs) < 4 /\ Len(ins) \in 1..2 /\ Len(dr) = Len(ins)
    /\ \A k \in DOMAIN ins : ins[k] \in DOMAIN segs /\ dr[k] \in 0..Len(bms)
    /\ \A k \in DOMAIN ins : dr[k] # 0 => bms[dr[k]] \subseteq 0..(NDocs(ins[k]) - 1)
    /\ LET cs == [k \in DOMAIN ins |-> segs[ins[k]].c]
           ds == [k \in DOMAIN ins |-> IF dr[k] = 0 THEN {} ELSE bms[dr[k]]]
       IN segs' = Append(segs, [c |-> Merge(cs, ds), kind |-> "merged"])
    /\ Op([op |-> "merge", ins |-> ins, drops |-> dr, seg |-> Len(segs) + 1])
    /\ last' = [kind |-> "merge"]
    \* deviation: the merger run-optimises / clears the caller's bitmap
    /\ bms' = IF "MergeTouchesBitmap" \in Dev /\ dr[1] # 0 THEN [bms EXCEPT ![dr[1]] = {}] ELSE bms
    /\ UNCHANGED <<pls, its, accs, flists, dvrs, dits>>

GPersistLoad(s) ==
    /\ Can /\ s \in DOMAIN segs /\ Len(segs) < 4
    /\ segs' = Append(segs, [c |-> segs[s].c, kind |-> "loaded"])
    /\ Op([op |-> "persist_load", from |-> s, seg |-> Len(segs) + 1])
    /\ last' = [kind |-> "persist_load"] /\ UNCHANGED <<bms, pls, its, accs, flists, dvrs, dits>>

\* Dictionary(field).PostingsList(term, except, prealloc)
GPlOpen(s, ft, ex, pre) ==
    /\ Can /\ s \in DOMAIN segs /\ ex \in 0..Len(bms) /\ pre \in 0..Len(pls) /\ Len(pls) < 3
    /\ LET new == [seg |-> s, field |-> ft[1], term |-> ft[2], ex |-> ex, gen |-> IF pre = 0 THEN 1 ELSE pls[pre].gen + 1]
           list == Postings(segs[s].c, ft[1], ft[2])
           exset == IF ex = 0 THEN {} ELSE bms[ex]
       IN /\ pls' = IF pre = 0 THEN Append(pls, new) ELSE [pls EXCEPT ![pre] = new]
          /\ last' = [kind |-> "pl_open", count |-> Cardinality(ListDocs(list) \ exset),
                      fresh |-> Cardinality(ListDocs(Postings(segs[s].c, ft[1], ft[2])) \ exset)]
    /\ Op([op |-> "pl_open", seg |-> s, field |-> ft[1], term |-> ft[2], ex |-> ex, prealloc |-> pre,
           pl |-> IF pre = 0 THEN Len(pls) + 1 ELSE pre])
    /\ UNCHANGED <<segs, bms, its, accs, flists, dvrs, dits>>

GItOpen(p, pre) ==
    /\ Can /\ p \in DOMAIN pls /\ pre \in 0..Len(its) /\ Len(its) < 3
    /\ LET new == [pl |-> p, plgen |-> pls[p].gen, idx |-> 0, closed |-> FALSE] IN
       its' = IF pre = 0 THEN Append(its, new) ELSE [its EXCEPT ![pre] = new]
    /\ Op([op |-> "it_open", pl |-> p, prealloc |-> pre, it |-> IF pre = 0 THEN Len(its) + 1 ELSE pre])
    /\ last' = [kind |-> "it_open"] /\ UNCHANGED <<segs, bms, pls, accs, flists, dvrs, dits>>

\* an iterator is usable while its list object still holds the list it was opened on
Live(i) == i \in DOMAIN its /\ pls[its[i].pl].gen = its[i].plgen /\ ~its[i].closed

GItStep(i, d) ==
    /\ Can /\ Live(i)
    /\ LET p == pls[its[i].pl]
           list == Postings(segs[p.seg].c, p.field, p.term)
           actual == ListDocs(list) \ (IF p.ex = 0 THEN {} ELSE bms[p.ex])
           j == ScanFrom(list, actual, its[i].idx + 1, d)
       IN /\ its' = [its EXCEPT ![i].idx = IF j = 0 THEN Len(list) ELSE j]
          /\ last' = [kind |-> "it_step", doc |-> IF j = 0 THEN -1 ELSE list[j].doc]
    /\ Op([op |-> IF d = 0 THEN "it_next" ELSE "it_adv", it |-> i, d |-> d])
    /\ UNCHANGED <<segs, bms, pls, accs, flists, dvrs, dits>>

\* Close(): the iterator may only be handed back as prealloc afterwards
GItClose(i) ==
    /\ Can /\ Live(i)
    /\ its' = [its EXCEPT ![i].closed = TRUE]
    /\ Op([op |-> "it_close", it |-> i])
    /\ last' = [kind |-> "it_close"] /\ UNCHANGED <<segs, bms, pls, accs, flists, dvrs, dits>>

\* Dictionary(field).Close(): nothing else notices
GDictClose(s, f) ==
    /\ Can /\ s \in DOMAIN segs
    /\ Op([op |-> "dict_close", seg |-> s, field |-> f])
    /\ last' = [kind |-> "dict_close"] /\ UNCHANGED <<segs, bms, pls, its, accs, flists, dvrs, dits>>

\* CollectionStats(field) hands the caller an object; Merge adds another object to it
StatFields == {"a", "b", "_id", "zz"}
GStatsGet(s, f) ==
    /\ Can /\ s \in DOMAIN segs /\ Len(accs) < 3
    /\ accs' = Append(accs, [val |-> Stats(segs[s].c, f), known |-> KnownField(segs[s].c, f)])
    /\ Op([op |-> "stats_get", seg |-> s, field |-> f, r |-> Len(accs) + 1])
    /\ last' = [kind |-> "stats_get"] /\ UNCHANGED <<segs, bms, pls, its, flists, dvrs, dits>>

GStatsAdd(a, b) ==
    /\ Can /\ a \in DOMAIN accs /\ b \in DOMAIN accs /\ a # b
    /\ accs' = [k \in DOMAIN accs |->
                   IF k = a \/ ("SharedEmptyStats" \in Dev /\ ~accs[a].known /\ ~accs[k].known)
                   THEN [accs[k] EXCEPT !.val = StatsAdd(accs[k].val, accs[b].val)]       \* deviation: one shared object
                   ELSE accs[k]]                                                           \* for all unknown fields
    /\ Op([op |-> "stats_add", r |-> a, r2 |-> b])
    /\ last' = [kind |-> "stats_add", a |-> a] /\ UNCHANGED <<segs, bms, pls, its, flists, dvrs, dits>>

GStatsRead(a) ==
    /\ Can /\ a \in DOMAIN accs
    /\ Op([op |-> "stats_read", r |-> a])
    /\ last' = [kind |-> "stats_read"] /\ UNCHANGED <<segs, bms, pls, its, accs, flists, dvrs, dits>>

\* VisitStoredFields(n) whose visitor stops after `stop` fields (0 = never)
GStored(s, n, stop) ==
    /\ Can /\ s \in DOMAIN segs
    /\ Op([op |-> "stored", seg |-> s, n |-> n, stop |-> stop])
    /\ last' = [kind |-> "stored"] /\ UNCHANGED <<segs, bms, pls, its, accs, flists, dvrs, dits>>

GRead(s, what) ==
    /\ Can /\ s \in DOMAIN segs
    /\ Op([op |-> what, seg |-> s])
    /\ last' = [kind |-> what] /\ UNCHANGED <<segs, bms, pls, its, accs, flists, dvrs, dits>>

\* a caller-owned field list (one slice object); DocumentValueReader(list) only reads it
FieldListChoices == {<<"a">>, <<"zz", "a">>, <<"b", "a", "_id">>}
GDefFields(fl) ==
    /\ Can /\ Len(flists) < 2
    /\ flists' = Append(flists, fl)
    /\ Op([op |-> "def_fields", fl |-> Len(flists) + 1])
    /\ last' = [kind |-> "def_fields"] /\ UNCHANGED <<segs, bms, pls, its, accs, dvrs, dits>>

GDvOpen(s, l) ==
    /\ Can /\ s \in DOMAIN segs /\ l \in DOMAIN flists /\ Len(dvrs) < 2
    /\ dvrs' = Append(dvrs, [seg |-> s, fl |-> l])
    \* deviation: the callee compacts / sorts the caller's slice in place (seeded C07-k, C15-l)
    /\ flists' = IF "DvOpenEditsList" \in Dev /\ Len(flists[l]) > 1 THEN [flists EXCEPT ![l] = Tail(@) \o <<Head(Tail(@))>>] ELSE flists
    /\ Op([op |-> "dv_open", seg |-> s, r |-> Len(dvrs) + 1, fields |-> flists[l]])
    /\ last' = [kind |-> "dv_open"] /\ UNCHANGED <<segs, bms, pls, its, accs, dits>>

GDvVisit(r, n) ==
    /\ Can /\ r \in DOMAIN dvrs /\ n < NDocs(dvrs[r].seg)
    /\ Op([op |-> "dv_visit", r |-> r, n |-> n])
    /\ last' = [kind |-> "dv_visit"] /\ UNCHANGED <<segs, bms, pls, its, accs, flists, dvrs, dits>>

\* dictionary iterators: opening, stepping and closing one leaves every other one alone - also when both were
\* handed the same shared empty object (unknown field "zz")
GDitOpen(s, f) ==
    /\ Can /\ s \in DOMAIN segs /\ Len(dits) < 3
    /\ dits' = Append(dits, [seg |-> s, field |-> f, open |-> TRUE])
    /\ Op([op |-> "dit_open", seg |-> s, field |-> f, r |-> Len(dits) + 1])
    /\ last' = [kind |-> "dit_open"] /\ UNCHANGED <<segs, bms, pls, its, accs, flists, dvrs>>

GDitNext(i) ==
    /\ Can /\ i \in DOMAIN dits /\ dits[i].open
    /\ Op([op |-> "dit_next", r |-> i])
    /\ last' = [kind |-> "dit_next"] /\ UNCHANGED <<segs, bms, pls, its, accs, flists, dvrs, dits>>

GDitClose(i) ==
    /\ Can /\ i \in DOMAIN dits /\ dits[i].open
    /\ dits' = [k \in DOMAIN dits |->
                   IF k = i \/ ("CloseKillsEmptyIts" \in Dev /\ dits[i].field = "zz" /\ dits[k].field = "zz")     \* seeded C08-l
                   THEN [dits[k] EXCEPT !.open = FALSE] ELSE dits[k]]
    /\ Op([op |-> "dit_close", r |-> i])
    /\ last' = [kind |-> "dit_close", i |-> i] /\ UNCHANGED <<segs, bms, pls, its, accs, flists, dvrs>>

Next ==
    \/ \E b \in BatchIds : GBuild(b)
    \/ \E docs \in {{}, {0}, {1}, {0, 1}} : GDefBm(docs)
    \/ \E a, b \in DOMAIN segs : \E da, db \in 0..Len(bms) : GMerge(<<a>>, <<da>>) \/ GMerge(<<a, b>>, <<da, db>>)
    \/ \E s \in DOMAIN segs : GPersistLoad(s)
    \/ \E s \in DOMAIN segs : \E ft \in Vocab : \E ex \in 0..Len(bms) : \E pre \in 0..Len(pls) : GPlOpen(s, ft, ex, pre)
    \/ \E p \in DOMAIN pls : \E pre \in 0..Len(its) : GItOpen(p, pre)
    \/ \E i \in DOMAIN its : \E d \in 0..2 : GItStep(i, d)
    \/ \E s \in DOMAIN segs : \E w \in {"observe", "match"} : GRead(s, w)
    \/ \E i \in DOMAIN its : GItClose(i)
    \/ \E s \in DOMAIN segs : \E f \in {"a", "_id"} : GDictClose(s, f)
    \/ \E s \in DOMAIN segs : \E f \in StatFields : GStatsGet(s, f)
    \/ \E a, b \in DOMAIN accs : GStatsAdd(a, b)
    \/ \E a \in DOMAIN accs : GStatsRead(a)
    \/ \E s \in DOMAIN segs : \E n \in 0..2 : \E stop \in 0..1 : GStored(s, n, stop)
    \/ \E fl \in FieldListChoices : GDefFields(fl)
    \/ \E s \in DOMAIN segs : \E l \in DOMAIN flists : GDvOpen(s, l)
    \/ \E r \in DOMAIN dvrs : \E n \in 0..2 : GDvVisit(r, n)
    \/ \E s \in DOMAIN segs : \E f \in {"a", "zz"} : GDitOpen(s, f)
    \/ \E i \in DOMAIN dits : GDitNext(i) \/ GDitClose(i)

Spec == Init /\ [][Next]_vars

\* C15: segments and caller-owned bitmaps are immutable (tables only grow)
SegmentsImmutable == [][\A h \in DOMAIN segs : h \in DOMAIN segs' /\ segs'[h] = segs[h]]_vars
BitmapsImmutable == [][\A k \in DOMAIN bms : k \in DOMAIN bms' /\ bms'[k] = bms[k]]_vars
\* C15/C16: Merge changes its receiver only
StatsIndependent == [][\A k \in DOMAIN accs : k \in DOMAIN accs' /\ (last'.kind # "stats_add" \/ last'.a # k) => accs'[k] = accs[k]]_vars
\* C15 (caller side): a field list handed to DocumentValueReader is the caller's and stays what it was
FieldListsImmutable == [][\A k \in DOMAIN flists : k \in DOMAIN flists' /\ flists'[k] = flists[k]]_vars
\* C08 / C13: a dictionary iterator is closed by its own Close() only
DitsIndependent == [][\A k \in DOMAIN dits : k \in DOMAIN dits' /\ ((last'.kind = "dit_close" /\ last'.i = k) \/ dits'[k] = dits[k])]_vars
\* C13: a lookup yields what a fresh object would yield
ReuseTransparent == last.kind = "pl_open" => last.count = last.fresh

\* E2 emission
Emit == (Len(hist) = MaxOps) => PrintT(<<"BEHAVIOUR", ToJson([hist |-> hist, catalogue |-> Catalogue])>>)

=============================================================================
