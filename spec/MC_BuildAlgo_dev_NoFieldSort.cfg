SPECIFICATION Spec
CONSTANTS
    Catalogue <- BuildCatalogue
    Dev = {"NoFieldSort"}
    FieldBytes <- McFieldBytes
    NormTable <- McNormTable
INVARIANT AllRefine
CHECK_DEADLOCK FALSE
