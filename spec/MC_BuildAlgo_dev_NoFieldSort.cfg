SPECIFICATION Spec
CONSTANTS
    Catalogue <- BuildCatalogue
    Dev = {"NoFieldSort"}
    FieldBytes <- McFieldBytes
    NormOf <- McNormOf
INVARIANT AllRefine
CHECK_DEADLOCK FALSE
