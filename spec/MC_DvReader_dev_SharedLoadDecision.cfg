SPECIFICATION Spec
CONSTANTS
    NFields = 2
    EntriesPer = 3
    MaxVisits = 5
    Dev = {"SharedLoadDecision"}
INVARIANT AllInv
CHECK_DEADLOCK FALSE
