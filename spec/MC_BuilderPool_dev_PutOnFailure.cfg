SPECIFICATION Spec
CONSTANTS
    MaxFields = 3
    MaxLists = 2
    MaxBuilds = 3
    MaxPool = 2
    Dev = {"PutOnFailure"}
INVARIANT HistoryIndependent
CHECK_DEADLOCK FALSE
