-------------------------------- MODULE Reuse --------------------------------
(***************************************************************************)
(* Level I: what a reused postings list carries over (dict.go              *)
(* postingsListInit / PostingsList.read / init1Hit, DictionaryIterator.tmp,*)
(* posting.go PostingsList.Iterator) - C13 and the counts of C08.          *)
(*                                                                         *)
(* A lookup finds one of: an unknown field (the dictionary has no segment),*)
(* an absent term, a 1-hit encoded term, a general term.  It may be given  *)
(* a list used by an earlier lookup ("prealloc"), or run on the scratch    *)
(* list of a dictionary iterator, which is NOT re-initialised between      *)
(* entries (it only calls read).  The invariants say that the resulting    *)
(* list, its Count and the kind of iterator it yields are the ones a fresh *)
(* list would give, whatever was done with the list before.                *)
(***************************************************************************)
EXTENDS Integers, Sequences, FiniteSets, TLC

CONSTANTS Docs, MaxLookups, Dev

Kinds == {"unknownField", "absentTerm", "onehit", "general"}
Targets == [kind : Kinds, post : SUBSET Docs, except : SUBSET Docs, exNil : BOOLEAN]
ValidTarget(t) ==
    /\ (t.kind \in {"unknownField", "absentTerm"} => t.post = {})
    /\ (t.kind = "onehit" => Cardinality(t.post) = 1)
    /\ (t.kind = "general" => t.post # {})
    /\ (t.exNil => t.except = {})

\* the Go struct: postings = "nil" is modelled by hasBitmap = FALSE
NilList == [hasBitmap |-> FALSE, postings |-> {}, doc1 |-> -1, norm1 |-> 0, except |-> {}, exNil |-> TRUE, sb |-> 0]

VARIABLES pl,      \* the (possibly reused) list object
          cur,     \* the target of the last lookup
          via,     \* "prealloc" or "scratch" (dictionary iterator tmp)
          n, out   \* number of lookups; last observation [count, iter]
vars == <<pl, cur, via, n, out>>

Init == pl = NilList /\ cur = [kind |-> "absentTerm", post |-> {}, except |-> {}, exNil |-> TRUE]
        /\ via = "prealloc" /\ n = 0 /\ out = [count |-> 0, iter |-> "empty"]

\* postingsListInit(rv, except): keep the bitmap allocation (cleared), clear everything else
ListInit(l, t) ==
    [hasBitmap |-> l.hasBitmap, postings |-> {}, doc1 |-> -1, norm1 |-> 0,
     except |-> t.except, exNil |-> t.exNil,
     sb |-> IF t.kind = "unknownField" THEN 0 ELSE 1]        \* the empty dictionary has no segment

\* PostingsList.read / init1Hit
ReadInto(l, t) ==
    IF t.kind = "onehit"
    THEN [l EXCEPT !.doc1 = CHOOSE d \in t.post : TRUE, !.norm1 = 7]
    ELSE [l EXCEPT !.hasBitmap = TRUE, !.postings = t.post,
                   !.doc1 = IF "StaleOneHit" \in Dev THEN @ ELSE -1,       \* repaired: read clears the marker
                   !.norm1 = IF "StaleOneHit" \in Dev THEN @ ELSE 0]

Count(l) ==
    IF l.norm1 # 0 THEN (IF ~l.exNil /\ l.doc1 \in l.except THEN 0 ELSE 1)
    ELSE IF l.hasBitmap THEN Cardinality(l.postings \ l.except) ELSE 0

\* PostingsList.Iterator(freq/norm/locs requested)
IterKind(l) ==
    IF l.norm1 = 0 /\ (~l.hasBitmap \/ (l.postings = {} /\ "NilOnlyEmptyCheck" \notin Dev)) THEN "empty"
    ELSE IF l.norm1 # 0 THEN "onehit"
    ELSE IF l.sb = 0 THEN "crash"                 \* newChunkedIntDecoder(p.sb.data, ...) with a nil segment
    ELSE "general"

\* Dictionary.PostingsList(term, except, prealloc)
Lookup(t, reuse) ==
    /\ n < MaxLookups /\ ValidTarget(t)
    /\ LET base == IF reuse THEN pl ELSE NilList
           fresh == ~reuse
           l == IF t.kind \in {"unknownField", "absentTerm"}
                THEN (IF fresh THEN NilList ELSE ListInit(base, t))   \* rv == nil: the shared emptyPostingsList
                ELSE ReadInto(ListInit(base, t), t)
       IN /\ pl' = l /\ out' = [count |-> Count(l), iter |-> IterKind(l)]
    /\ cur' = t /\ via' = "prealloc" /\ n' = n + 1

\* DictionaryIterator.Next: i.tmp.read(offset) on the scratch list, no init
ScratchRead(t) ==
    /\ n < MaxLookups /\ ValidTarget(t) /\ t.kind \in {"onehit", "general"} /\ t.exNil
    /\ LET l == ReadInto([pl EXCEPT !.except = {}, !.exNil = TRUE], t) IN
       /\ pl' = l /\ out' = [count |-> Count(l), iter |-> "n/a"]
    /\ cur' = t /\ via' = "scratch" /\ n' = n + 1

Next == \E t \in Targets : (\E r \in BOOLEAN : Lookup(t, r)) \/ ScratchRead(t)
Spec == Init /\ [][Next]_vars

\* Level A: what a fresh lookup yields
ExpCount == Cardinality(cur.post \ cur.except)
ExpIter == IF cur.kind = "onehit" THEN "onehit" ELSE IF cur.kind = "general" THEN "general" ELSE "empty"

CountRight == n > 0 => out.count = ExpCount
IterRight == (n > 0 /\ via = "prealloc") => out.iter = ExpIter
NoCrash == out.iter # "crash"

=============================================================================
