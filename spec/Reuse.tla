-------------------------------- MODULE Reuse --------------------------------
(***************************************************************************)
(* Level I: what a reused postings list carries over (dict.go              *)
(* postingsListInit / PostingsList.read / init1Hit, DictionaryIterator.tmp,*)
(* posting.go PostingsList.Iterator) - C13 and the counts of C08.          *)
(*                                                                         *)
(* A lookup finds one of: an unknown field (the dictionary has no segment),*)
(* an absent term, a 1-hit encoded term, a general term.  It may be given  *)
(* a list used by an earlier lookup ("prealloc"), or run on the scratch    *)
(* list of a dictionary iterator, which is NOT re-initialised between      *)
(* entries (it only calls read).  The invariants say that the resulting    *)
(* list, its Count and the kind of iterator it yields are the ones a fresh *)
(* list would give, whatever was done with the list before.                *)
(***************************************************************************)
EXTENDS Integers, Sequences, FiniteSets, TLC

CONSTANTS Docs, MaxLookups, Dev

Kinds == {"unknownField", "absentTerm", "onehit", "general"}
Targets == [kind : Kinds, post : SUBSET Docs, except : SUBSET Docs, exNil : BOOLEAN]
ValidTarget(t) ==
    /\ (t.kind \in {"unknownField", "absentTerm"} => t.post = {})
    /\ (t.kind = "onehit" => Cardinality(t.post) = 1)
    /\ (t.kind = "general" => t.post # {})
    /\ (t.exNil => t.except = {})

\* the Go struct: postings = "nil" is modelled by hasBitmap = FALSE
NilList == [hasBitmap |-> FALSE, postings |-> {}, doc1 |-> -1, norm1 |-> 0, except |-> {}, exNil |-> TRUE, sb |-> 0]

VARIABLES shared,  \* content of the process-wide emptyPostingsList (returned for absent terms / unknown fields when no
                   \* list was handed in); must stay the nil list for ever
          isShared,\* the caller's list object IS that shared object
          pl,      \* the (possibly reused) list object
          itr,     \* the (possibly reused) iterator object: [doc1, norm1, consumed, src]
          cur,     \* the target of the last lookup
          via,     \* "prealloc" or "scratch" (dictionary iterator tmp)
          n, out   \* number of lookups; last observation [count, iter, first]
vars == <<shared, isShared, pl, itr, cur, via, n, out>>

\* PostingsIterator fields that matter across reuse: the 1-hit cursor and which list it walks
NilIter == [doc1 |-> -1, norm1 |-> 0, consumed |-> FALSE, src |-> {}]

Init == shared = NilList /\ isShared = FALSE /\ itr = NilIter /\ pl = NilList /\ cur = [kind |-> "absentTerm", post |-> {}, except |-> {}, exNil |-> TRUE]
        /\ via = "prealloc" /\ n = 0 /\ out = [count |-> 0, iter |-> "empty", first |-> -1]

\* postingsListInit(rv, except): keep the bitmap allocation (cleared), clear everything else
ListInit(l, t) ==
    [hasBitmap |-> l.hasBitmap, postings |-> {},
     doc1 |-> IF "InitKeepsOneHit" \in Dev THEN l.doc1 ELSE -1,          \* seeded C02-k: a "cheap" field-by-field reset
     norm1 |-> IF "InitKeepsOneHit" \in Dev THEN l.norm1 ELSE 0,
     except |-> t.except, exNil |-> t.exNil,
     sb |-> IF t.kind = "unknownField" THEN 0 ELSE 1]        \* the empty dictionary has no segment

\* PostingsList.read / init1Hit
ReadInto(l, t) ==
    IF t.kind = "onehit"
    THEN [l EXCEPT !.doc1 = CHOOSE d \in t.post : TRUE, !.norm1 = 7]
    ELSE [l EXCEPT !.hasBitmap = TRUE, !.postings = t.post,
                   !.doc1 = IF "StaleOneHit" \in Dev THEN @ ELSE -1,       \* repaired: read clears the marker
                   !.norm1 = IF "StaleOneHit" \in Dev THEN @ ELSE 0]

Count(l) ==
    IF l.norm1 # 0 THEN (IF ~l.exNil /\ l.doc1 \in l.except THEN 0 ELSE 1)
    ELSE IF l.hasBitmap THEN Cardinality(l.postings \ l.except) ELSE 0

\* PostingsList.Iterator(freq/norm/locs requested)
IterKind(l) ==
    IF "EmptyShortcutIgnoresOneHit" \in Dev /\ l.hasBitmap /\ l.postings = {} THEN "empty"     \* seeded C13-l
    ELSE IF l.norm1 = 0 /\ (~l.hasBitmap \/ (l.postings = {} /\ "NilOnlyEmptyCheck" \notin Dev)) THEN "empty"
    ELSE IF l.norm1 # 0 THEN "onehit"
    ELSE IF l.sb = 0 THEN "crash"                 \* newChunkedIntDecoder(p.sb.data, ...) with a nil segment
    ELSE "general"

\* PostingsList.Iterator(..., prealloc) followed by one Next(): returns <<iterator object after, first doc or -1>>
\* (advance = FALSE models a caller that opens the iterator but does not consume it yet)
OpenAndNext(l, pre, advance) ==
    LET kind == IterKind(l) IN
    IF kind = "empty"
    THEN IF "DrainPrealloc" \in Dev /\ pre # NilIter
         THEN \* hands the caller's own iterator back with its bitmaps dropped - but not its 1-hit cursor
              LET i == [pre EXCEPT !.src = {}] IN
              <<IF advance THEN [i EXCEPT !.consumed = TRUE] ELSE i,
                IF i.norm1 # 0 /\ ~i.consumed THEN i.doc1 ELSE -1>>
         ELSE <<NilIter, -1>>                                   \* the shared emptyPostingsIterator
    ELSE IF kind = "onehit"
    THEN LET excluded == ~l.exNil /\ l.doc1 \in l.except IN      \* *rv = PostingsIterator{}; then the 1-hit fields
         <<[doc1 |-> l.doc1, norm1 |-> l.norm1, consumed |-> advance \/ excluded, src |-> {}],
           IF excluded THEN -1 ELSE l.doc1>>
    ELSE IF kind = "general"
    THEN LET a == l.postings \ l.except IN
         <<[doc1 |-> -1, norm1 |-> 0, consumed |-> FALSE, src |-> a],
           IF a = {} THEN -1 ELSE CHOOSE d \in a : \A x \in a : d <= x>>
    ELSE <<pre, -1>>                                            \* crash (reported by NoCrash)

\* Dictionary.PostingsList(term, except, prealloc)
Lookup(t, reuse, reuseIt, advance) ==
    /\ n < MaxLookups /\ ValidTarget(t)
    /\ LET found == t.kind \notin {"unknownField", "absentTerm"}
           \* postingsListInit: a nil prealloc - and the shared empty list, should a caller hand it back - is replaced
           \* by a new object ("RecycleSharedEmpty", seeded C01-k: only nil is)
           recycleShared == reuse /\ isShared /\ "RecycleSharedEmpty" \in Dev
           fresh == ~reuse \/ (isShared /\ ~recycleShared)
           base == IF fresh THEN NilList ELSE pl
           l == IF ~found
                THEN (IF fresh THEN shared ELSE ListInit(base, t))    \* rv == nil: the shared emptyPostingsList
                ELSE ReadInto(ListInit(base, t), t)
           r == OpenAndNext(l, IF reuseIt THEN itr ELSE NilIter, advance)
       IN /\ pl' = l /\ itr' = r[1]
          /\ isShared' = IF ~found THEN (fresh \/ recycleShared) ELSE recycleShared
          /\ shared' = IF recycleShared THEN l ELSE shared             \* the write went into the shared object
          /\ out' = [count |-> Count(l), iter |-> IterKind(l), first |-> r[2]]
    /\ cur' = t /\ via' = "prealloc" /\ n' = n + 1

\* DictionaryIterator.Next: i.tmp.read(offset) on the scratch list, no init
ScratchRead(t) ==
    /\ n < MaxLookups /\ ValidTarget(t) /\ t.kind \in {"onehit", "general"} /\ t.exNil
    /\ LET l == ReadInto([pl EXCEPT !.except = {}, !.exNil = TRUE], t) IN
       /\ pl' = l /\ out' = [count |-> Count(l), iter |-> "n/a", first |-> -2] /\ UNCHANGED <<itr, shared>>
       /\ isShared' = FALSE                                          \* the iterator's own scratch list
    /\ cur' = t /\ via' = "scratch" /\ n' = n + 1

Next == \E t \in Targets : (\E r, ri, adv \in BOOLEAN : Lookup(t, r, ri, adv)) \/ ScratchRead(t)
Spec == Init /\ [][Next]_vars

\* Level A: what a fresh lookup yields
ExpCount == Cardinality(cur.post \ cur.except)
ExpIter == IF cur.kind = "onehit" THEN "onehit" ELSE IF cur.kind = "general" THEN "general" ELSE "empty"

CountRight == n > 0 => out.count = ExpCount
IterRight == (n > 0 /\ via = "prealloc") => out.iter = ExpIter
NoCrash == out.iter # "crash"
SharedStaysEmpty == shared = NilList
\* the first posting the (possibly reused) iterator returns is the first non-excluded posting of the list
FirstRight == (n > 0 /\ via = "prealloc" /\ out.iter # "crash") =>
                  out.first = (LET a == cur.post \ cur.except IN IF a = {} THEN -1 ELSE CHOOSE d \in a : \A x \in a : d <= x)

=============================================================================
