----------------------------- MODULE BuilderPool -----------------------------
(***************************************************************************)
(* Level I: the recycled builder state (new.go interimPool, reset,         *)
(* convert/prepareDicts reslicing) - C14.                                  *)
(*                                                                         *)
(* A pooled object keeps, between builds: the IncludeDocValues flags       *)
(* (resliced when the capacity suffices, reallocated otherwise), the       *)
(* postings bitmaps (reused up to the capacity, must be empty), and the    *)
(* per-postings-list counters that plan the backing arrays (appended to by *)
(* every build, so they must start empty).  A successful build resets the  *)
(* object field by field and puts it back; a failed build drops it.        *)
(* The output of a build is abstracted to what those fields can influence: *)
(* the set of fields that get a doc-value section, whether a postings      *)
(* bitmap starts dirty, and whether the capacity plan matches the batch.   *)
(* Invariant: the output equals the output on a fresh object.              *)
(***************************************************************************)
EXTENDS Integers, Sequences, FiniteSets, TLC

CONSTANTS MaxFields, MaxLists, MaxBuilds, MaxPool, Dev

\* the shape of a batch, as far as the pooled fields can tell
Shapes == [nf : 1..MaxFields, dv : SUBSET (1..MaxFields), npl : 0..MaxLists, ok : BOOLEAN]
ValidShape(s) == s.dv \subseteq 1..s.nf

Fresh == [dvcap |-> 0, dvvals |-> [i \in 1..MaxFields |-> FALSE],
          plcap |-> 0, pldirty |-> [i \in 1..MaxLists |-> FALSE],
          nterms |-> 0]          \* length of numTermsPerPostingsList left behind

VARIABLES pool,     \* set of pooled objects (sync.Pool: any of them, or a new one, is handed out)
          builds, out
vars == <<pool, builds, out>>

Init == pool = {} /\ builds = 0 /\ out = [got |-> "none", exp |-> "none"]

\* what a build on object o produces, and the object after convert()+writing
Run(o, s) ==
    LET dvvals == IF o.dvcap >= s.nf THEN o.dvvals                       \* reslice: old content stays
                  ELSE [i \in 1..MaxFields |-> FALSE]                      \* make(): zeroed
        dvcap  == IF o.dvcap >= s.nf THEN o.dvcap ELSE s.nf
        dv2    == [i \in 1..MaxFields |-> dvvals[i] \/ (i \in s.dv)]
        dirty  == \E i \in 1..s.npl : i <= o.plcap /\ o.pldirty[i]          \* a reused bitmap still holds documents
        plan   == o.nterms + s.npl                                          \* counters appended to what was left
    IN [output |-> [dvsections |-> {i \in 1..s.nf : dv2[i]}, dirty |-> dirty, planOK |-> plan = s.npl],
        after  |-> [dvcap |-> dvcap, dvvals |-> dv2,
                    plcap |-> IF o.plcap >= s.npl THEN o.plcap ELSE s.npl,
                    pldirty |-> [i \in 1..MaxLists |-> (i <= s.npl) \/ (i <= o.plcap /\ o.pldirty[i])],
                    nterms |-> plan]]

Reset(o, s) ==
    [o EXCEPT !.dvvals = IF "NoDvReset" \in Dev THEN @ ELSE [i \in 1..MaxFields |-> IF i <= s.nf THEN FALSE ELSE @[i]],
              !.pldirty = IF "NoPostingsClear" \in Dev THEN @ ELSE [i \in 1..MaxLists |-> IF i <= s.npl THEN FALSE ELSE @[i]],
              !.nterms = IF "NoCountersReset" \in Dev THEN @ ELSE 0]

Build(s, o) ==
    /\ builds < MaxBuilds /\ ValidShape(s)
    /\ LET r == Run(o, s) IN
       /\ out' = [got |-> r.output, exp |-> Run(Fresh, s).output]
       /\ pool' = LET rest == pool \ {o} IN
                  IF s.ok THEN (IF Cardinality(rest) < MaxPool THEN rest \cup {Reset(r.after, s)} ELSE rest)
                  ELSE IF "PutOnFailure" \in Dev THEN rest \cup {r.after}
                  ELSE rest                                                   \* a failed build drops the object
    /\ builds' = builds + 1

Next == \E s \in Shapes : \E o \in pool \cup {Fresh} : Build(s, o)
Spec == Init /\ [][Next]_vars

\* C14
HistoryIndependent == out.got = out.exp

=============================================================================
