------------------------------ MODULE LoadLayout ------------------------------
(***************************************************************************)
(* Level I: the byte layout of a version-2 segment and the reads Load and  *)
(* the lazy readers perform on it (load.go, footer.go, segment.go          *)
(* loadDvReaders/dictionary, docvalues.go, posting.go read,                *)
(* intdecoder.go) - C04, C10.                                              *)
(*                                                                         *)
(* Many reads fetch a varint with a fixed look-ahead of MaxVarintLen64     *)
(* bytes.  A memory-backed segment tolerates a look-ahead that runs past   *)
(* the data section (the slice's capacity covers the footer), a            *)
(* file-backed one does not (io.SectionReader returns EOF), so every       *)
(* look-ahead must end inside the data section.  The model lays out the    *)
(* sections with their MINIMAL real sizes for a family of shapes and       *)
(* checks the margin of every look-ahead site; sites that read "to the end *)
(* of the fields index" are exact by construction.                         *)
(*                                                                         *)
(*   data section = [stored blocks][chunk offsets (varints)][u32 len]      *)
(*                  [u32 num][stored index 8*n]                            *)
(*                  { per field: [term streams + postings records]*        *)
(*                    [varint fstLen][fst][doc values] }                   *)
(*                  [dv locs: 2 varints per field]                         *)
(*                  [field records: dictLoc, nameLen, name, docs, freqs]   *)
(*                  [fields index 8*F]          then the 44-byte footer    *)
(***************************************************************************)
EXTENDS Integers, Sequences, FiniteSets, TLC

CONSTANTS Look,        \* binary.MaxVarintLen64 = 10
          Dev

VARIABLES shape        \* [n : docs, nf : fields, terms : terms per field (0 = no dictionary), dv : BOOLEAN, v : varint width 1..2]
vars == <<shape>>

Shapes == [n : 0..2, nf : 1..3, terms : 0..2, dv : BOOLEAN, v : 1..2, name : 1..3]

\* minimal real sizes (bytes)
ZstdMin == 14                     \* zstd frame of a 1-byte input (measured with ice.ZSTDCompress)
RoaringMin == 18                  \* serialised roaring bitmap with one value (measured)
FstMin == 36                      \* vellum FST with one key (measured)

S == shape
V == S.v

StoredBlocks == IF S.n = 0 THEN 0 ELSE ZstdMin
NumOffsets == (S.n \div 128) + 2
StoredTrailer == NumOffsets * V + 4 + 4
StoredIndex == 8 * S.n
StoredSection == StoredBlocks + StoredTrailer + StoredIndex

\* one term: freq/norm stream (numChunks varint + offsets + data), optional loc stream, postings record
TermBytes == (V + V + ZstdMin) + (3 * V + RoaringMin)
DictBytes == IF S.terms = 0 \/ S.n = 0 THEN 0 ELSE S.terms * TermBytes + V + FstMin
\* doc values of one field: per chunk [numDocs varint, (docNum, offset) pairs, data], then offsets, len u64, num u64
DvBytes == IF ~S.dv \/ S.n = 0 THEN 0 ELSE (V + 2 * V + ZstdMin) + V + 8 + 8
FieldSection == DictBytes + DvBytes

DvLocs == IF S.n = 0 THEN 0 ELSE S.nf * 2 * V
FieldRecord == V + 1 + S.name + 1 + 1          \* dictLoc, nameLen, name, fieldDocs, fieldFreqs (small counts)
FieldRecords == S.nf * FieldRecord
FieldsIndex == 8 * S.nf

DataLen == StoredSection + S.nf * FieldSection + DvLocs + FieldRecords + FieldsIndex

\* ---- look-ahead sites: <<name, start offset of the read>>; the read covers [start, start + Look)
StoredOffsetsStart == StoredBlocks
DvLocsStart == StoredSection + S.nf * FieldSection
FieldRecordsStart == DvLocsStart + DvLocs
LastFieldRecord == FieldRecordsStart + (S.nf - 1) * FieldRecord

Sites ==
    \* loadStoredFieldChunk: the LAST chunk offset varint
    {<<"stored chunk offset", StoredOffsetsStart + (NumOffsets - 1) * V>>}
    \cup
    \* loadDvReaders: the last field's END varint (only when the segment has documents)
    (IF S.n > 0 THEN {<<"dv loc", DvLocsStart + DvLocs - V>>} ELSE {})
    \cup
    \* dictionary(): vellum length prefix of the last field; PostingsList.read: the last varint of the last record
    (IF DictBytes > 0
     THEN {<<"fst length", StoredSection + (S.nf - 1) * FieldSection + S.terms * TermBytes>>,
           <<"postings len", StoredSection + (S.nf - 1) * FieldSection + S.terms * TermBytes - RoaringMin - V>>}
     ELSE {})
    \cup
    \* loadFieldDocValueReader: the last chunk-offset varint of the last field's doc values
    (IF DvBytes > 0
     THEN {<<"dv chunk offset", StoredSection + S.nf * FieldSection - 16 - V>>}
     ELSE {})
    \cup
    \* the deviation: loadFields reading its varints with a fixed look-ahead instead of "to the end"
    (IF "FieldsLookAhead" \in Dev THEN {<<"field freq", LastFieldRecord + FieldRecord - 1>>} ELSE {})

Init == shape \in Shapes
Next == UNCHANGED vars
Spec == Init /\ [][Next]_vars

LookAheadInsideData == \A s \in Sites : s[2] + Look <= DataLen
\* the exact reads of load(): everything they address exists
ExactReadsInside ==
    /\ StoredSection >= 8                                   \* chunkNum and offsets length precede the stored index
    /\ FieldRecordsStart + FieldRecords + FieldsIndex = DataLen

=============================================================================
