SPECIFICATION Spec
CONSTANTS
    Terms = {0, 1}
    SegDocs <- McSegDocs21
    Dev = {"CardCountsDropped"}
INVARIANT AllRight
CHECK_DEADLOCK FALSE
