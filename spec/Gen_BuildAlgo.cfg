SPECIFICATION Spec
CONSTANTS
    Catalogue <- BuildCatalogue
    Dev = {}
    FieldBytes <- McFieldBytes
    NormTable <- McNormTable
INVARIANT EmitBatch
CHECK_DEADLOCK FALSE
