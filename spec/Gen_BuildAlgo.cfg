SPECIFICATION Spec
CONSTANTS
    Catalogue <- BuildCatalogue
    Dev = {}
    FieldBytes <- McFieldBytes
    NormOf <- McNormOf
INVARIANT EmitBatch
CHECK_DEADLOCK FALSE
