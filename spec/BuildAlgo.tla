------------------------------ MODULE BuildAlgo ------------------------------
(***************************************************************************)
(* Level I: the builder's roll-up of one document (new.go convert,         *)
(* getOrDefineField, processDocument), transcribed and checked against     *)
(* IceData!Build on the catalogue - C01.                                   *)
(*                                                                         *)
(* Field ids: "_id" is defined first, then every field name in first-seen  *)
(* order over the batch, then FieldsInv[1:] is sorted.  Per document the    *)
(* builder walks the field instances in input order and keeps, per field,  *)
(* the summed length and a map term -> (frequency, locations): a term seen *)
(* again in a LATER instance of the same field name adds its frequency and *)
(* appends its locations.  A location's field is its own Field(), or the   *)
(* containing field when that is empty.                                    *)
(* Deviations: "LaterInstanceFieldName" (pinned: later occurrences got the *)
(* containing field's name), "FreqAssign" (= instead of +=),               *)
(* "FreqFromLocs" (counts locations), "NoFieldSort".                       *)
(***************************************************************************)
EXTENDS Catalogue, Json

CONSTANTS Catalogue, Dev

VARIABLES b        \* index of the catalogue batch under test
vars == <<b>>

Batch == Catalogue[b]

\* getOrDefineField over the whole batch: first-seen order, then sort all but "_id"
RECURSIVE FirstSeen(_, _)
FirstSeen(names, acc) ==
    IF names = <<>> THEN acc
    ELSE FirstSeen(Tail(names), IF \E k \in DOMAIN acc : acc[k] = Head(names) THEN acc ELSE Append(acc, Head(names)))
AllNames == Flatten([d \in DOMAIN Batch |-> [i \in DOMAIN Batch[d] |-> Batch[d][i].name]])
FieldsInv ==
    LET fs == FirstSeen(AllNames, <<"_id">>) IN
    IF "NoFieldSort" \in Dev THEN fs
    ELSE <<"_id">> \o SortSeq(Tail(fs), LAMBDA x, y : LexLess(FieldBytes[x], FieldBytes[y]))

\* processDocument: fold over the instances of one document
\* state: [lens : field -> Nat, tfs : field -> Seq([term, freq, locs])]   (sequence = insertion order of the map, irrelevant)
Roll(doc) ==
    LET names == {doc[i].name : i \in DOMAIN doc}
        RECURSIVE Terms(_, _, _)
        \* add the term occurrences of one instance to the per-field list
        Terms(acc, inst, k) ==
            IF k > Len(inst.terms) THEN acc
            ELSE LET o == inst.terms[k]
                     pos == {j \in DOMAIN acc : acc[j].term = o.term}
                     resolved(first) == [j \in DOMAIN o.locs |->
                                           [o.locs[j] EXCEPT !.field =
                                               IF first \/ "LaterInstanceFieldName" \notin Dev
                                               THEN (IF o.locs[j].field = "" THEN inst.name ELSE o.locs[j].field)
                                               ELSE inst.name]]
                 IN IF pos = {}
                    THEN Terms(Append(acc, [term |-> o.term, freq |-> o.freq, locs |-> resolved(TRUE)]), inst, k + 1)
                    ELSE LET j == CHOOSE x \in pos : TRUE IN
                         Terms([acc EXCEPT ![j].locs = @ \o resolved(FALSE),
                                           ![j].freq = IF "FreqAssign" \in Dev THEN o.freq
                                                       ELSE IF "FreqFromLocs" \in Dev THEN @ + Len(o.locs)
                                                       ELSE @ + o.freq], inst, k + 1)
        RECURSIVE Walk(_, _)
        Walk(st, i) ==
            IF i > Len(doc) THEN st
            ELSE LET inst == doc[i] f == inst.name IN
                 Walk([lens |-> [st.lens EXCEPT ![f] = @ + inst.len],
                       tfs  |-> [st.tfs EXCEPT ![f] = Terms(@, inst, 1)]], i + 1)
    IN Walk([lens |-> [f \in names |-> 0], tfs |-> [f \in names |-> <<>>]], 1)

BuiltPosting(n, f, t) ==
    LET r == Roll(Batch[n + 1])
        e == r.tfs[f][CHOOSE j \in DOMAIN r.tfs[f] : r.tfs[f][j].term = t]
    IN [doc |-> n, freq |-> e.freq, norm |-> NormAt(f, r.lens[f]), locs |-> e.locs]

Init == b \in DOMAIN Catalogue
Next == UNCHANGED vars
Spec == Init /\ [][Next]_vars

A == Build(Batch)

RefinesFieldList == FieldsInv = A.fields
RefinesPostings ==
    \A n \in 0..(Len(Batch) - 1) : \A f \in {Batch[n + 1][i].name : i \in DOMAIN Batch[n + 1]} :
        \A t \in TermsOfDoc(A.docs[n + 1], f) :
            BuiltPosting(n, f, t) = PostingOf(A, n, f, t)
RefinesTermSets ==
    \A n \in 0..(Len(Batch) - 1) : \A f \in {Batch[n + 1][i].name : i \in DOMAIN Batch[n + 1]} :
        {Roll(Batch[n + 1]).tfs[f][j].term : j \in DOMAIN Roll(Batch[n + 1]).tfs[f]} = TermsOfDoc(A.docs[n + 1], f)
EmitBatch == PrintT(<<"BEHAVIOUR", ToJson([id |-> b, batch |-> Batch])>>)
AllRefine == RefinesFieldList /\ RefinesPostings /\ RefinesTermSets

\* extra catalogue entries that stress the roll-up: the same term in three instances of one field,
\* with locations naming another field, frequencies above the location counts, fields first seen unsorted
BuildCatalogue == McCatalogue \o <<
    << <<Inst("b", <<Occ(T(120), 3, <<L("a", 1)>>)>>, TRUE, T(1), FALSE),
         Inst("a", <<Occ(T(120), 1, <<>>)>>, FALSE, <<>>, TRUE),
         Inst("b", <<Occ(T(120), 2, <<L("", 2), L("a", 3)>>), Occ(T(121), 1, <<>>)>>, FALSE, <<>>, FALSE),
         Inst("b", <<Occ(T(120), 4, <<>>)>>, TRUE, T(2), FALSE)>>,
       <<Id(7), Inst("c", <<Occ(<<>>, 1, <<L("b", 0)>>)>>, TRUE, <<>>, FALSE)>> >>
>>

=============================================================================
