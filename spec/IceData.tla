------------------------------- MODULE IceData -------------------------------
(***************************************************************************)
(* Level A of the ice specification: WHAT a segment is.                    *)
(*                                                                         *)
(* A segment is its observable content.  Build and Merge are functions     *)
(* between contents and every read API is a pure function of a content.    *)
(* There are no variables in this module; IceAPI turns it into a state     *)
(* machine over handles, the Level-I modules refine single mechanisms      *)
(* against it, and Trace_API evaluates it on traces of the real code.      *)
(*                                                                         *)
(* Shapes (all byte strings are sequences of 0..255):                      *)
(*   Loc       == [field : STRING, pos, start, end : Nat]    ("" = own)    *)
(*   TermOcc   == [term : Bytes, freq : Nat, locs : Seq(Loc)]              *)
(*   FieldInst == [name : STRING, len : Nat, stored : BOOLEAN,             *)
(*                 value : Bytes, dv : BOOLEAN, terms : Seq(TermOcc)]      *)
(*   Doc       == Seq(FieldInst)          Batch == Seq(Doc)                *)
(*   DocC      == [insts : Doc, dv : SUBSET STRING]                        *)
(*   Content   == [docs : Seq(DocC), fields : Seq(STRING),                 *)
(*                 origin : {"built","merged"}]                            *)
(*                                                                         *)
(* A content keeps the surviving documents themselves, so "a merge is      *)
(* indistinguishable from rebuilding the survivors" (C02) is literally the *)
(* definition of Merge.  What a document cannot carry alone is kept next   *)
(* to it: the set of fields for which its source segment had doc values    *)
(* (C07: "as in the source segment"), the field list (a merge keeps the    *)
(* union even when every document of a field is deleted) and the origin    *)
(* (C16: DocumentCount means "carries the field" for built and "has a term *)
(* in the field" for merged segments).                                     *)
(***************************************************************************)
EXTENDS Integers, Sequences, FiniteSets, TLC, SequencesExt

CONSTANTS FieldBytes,  \* function: field name -> its bytes (TLC cannot order strings)
          NormTable    \* field name -> sequence indexed by total length + 1 of norm values

Dropped == -1          \* stands for math.MaxInt64 in document-number maps

\* the norm of a field of total length len; a one-entry table means "the same norm for every length"
\* (scenarios whose field lengths approach 2^31 cannot carry a table indexed by length)
NormAt(f, len) == LET t == NormTable[f] IN IF Len(t) = 1 THEN t[1] ELSE t[len + 1]

-----------------------------------------------------------------------------
(* Generic helpers *)

RECURSIVE LexLessFrom(_, _, _)
LexLessFrom(a, b, i) ==
    IF i > Len(a) THEN i <= Len(b)
    ELSE IF i > Len(b) THEN FALSE
    ELSE IF a[i] # b[i] THEN a[i] < b[i]
    ELSE LexLessFrom(a, b, i + 1)
LexLess(a, b) == LexLessFrom(a, b, 1)         \* strict bytewise order
LexLeq(a, b)  == a = b \/ LexLess(a, b)

\* folds (SequencesExt!FoldLeft is evaluated iteratively by TLC: segments of 65 536+ documents
\* are summed without deep recursion)
SumSeq(s) == FoldLeft(LAMBDA acc, x : acc + x, 0, s)
Flatten(ss) == FoldLeft(LAMBDA acc, x : acc \o x, <<>>, ss)     \* Seq(Seq(X)) -> Seq(X)

RangeOf(s) == {s[i] : i \in DOMAIN s}

\* TLC keeps [i \in 1..n |-> e] unevaluated and re-evaluates e at every application; a sequence that is
\* indexed many times is turned into an explicit tuple once (semantically the identity on sequences)
Force(s) == s \o <<>>

\* sort a finite set into a sequence under a strict total order
SetToSorted(S, Less(_, _)) == SetToSortSeq(S, Less)    \* SequencesExt: SortSeq(SetToSeq(S), Less)

IsPrefixOf(p, t) == Len(p) <= Len(t) /\ \A i \in 1..Len(p) : p[i] = t[i]

-----------------------------------------------------------------------------
(* Field order: "_id" first, then bytewise *)

FieldLess(f, g) ==
    IF f = g THEN FALSE
    ELSE IF f = "_id" THEN TRUE
    ELSE IF g = "_id" THEN FALSE
    ELSE LexLess(FieldBytes[f], FieldBytes[g])

FieldList(S) == SetToSorted(S \cup {"_id"}, FieldLess)

-----------------------------------------------------------------------------
(* Build *)

\* (written as the range of one flattened sequence: TLC's UNION is quadratic in the size of the result,
\* which matters for batches with tens of thousands of fields)
BatchFieldNames(batch) ==
    RangeOf(Flatten([d \in DOMAIN batch |-> [i \in DOMAIN batch[d] |-> batch[d][i].name]]))

BatchDvFields(batch) ==
    RangeOf(Flatten([d \in DOMAIN batch |->
                LET fl == SelectSeq(batch[d], LAMBDA fi : fi.dv) IN [i \in DOMAIN fl |-> fl[i].name]]))

Build(batch) ==
    LET dvf == BatchDvFields(batch) IN
    [docs   |-> Force([d \in DOMAIN batch |-> [insts |-> batch[d], dv |-> dvf]]),
     fields |-> FieldList(BatchFieldNames(batch)),
     origin |-> "built"]

\* the input contract of the properties' quantifiers, as far as it concerns one batch
ValidBatch(batch) ==
    LET names == BatchFieldNames(batch)
        dvf   == BatchDvFields(batch)
    IN
    \A d \in DOMAIN batch : \A i \in DOMAIN batch[d] :
        LET fi == batch[d][i] IN
        /\ fi.name # ""
        \* a term occurs at most once per field instance (cardinality instead of a quadratic comparison:
        \* batches with tens of thousands of terms are validated too)
        /\ Cardinality({fi.terms[k].term : k \in DOMAIN fi.terms}) = Len(fi.terms)
        /\ \A k \in DOMAIN fi.terms :
              LET o == fi.terms[k] IN
              /\ o.freq >= 1 /\ o.freq >= Len(o.locs)
              /\ \A j \in DOMAIN o.locs : o.locs[j].field = "" \/ o.locs[j].field \in names
              /\ (fi.name \in dvf) => (\A b \in DOMAIN o.term : o.term[b] # 255)

\* C16 additionally assumes what Bluge's analysers guarantee
LenIsSumFreq(batch) ==
    \A d \in DOMAIN batch : \A i \in DOMAIN batch[d] :
        batch[d][i].len = SumSeq([k \in DOMAIN batch[d][i].terms |-> batch[d][i].terms[k].freq])

-----------------------------------------------------------------------------
(* What one document says about (field, term) *)

InstsOf(doc, f) == SelectSeq(doc.insts, LAMBDA fi : fi.name = f)

TotalLen(doc, f) ==
    LET is == InstsOf(doc, f) IN SumSeq([i \in DOMAIN is |-> is[i].len])

\* the occurrences of t in the instances of f, in input order, each with its resolved locations
OccsOf(doc, f, t) ==
    LET is == InstsOf(doc, f)
        perInst(fi) ==
            LET os == SelectSeq(fi.terms, LAMBDA o : o.term = t) IN
            [k \in DOMAIN os |->
                [freq |-> os[k].freq,
                 locs |-> [j \in DOMAIN os[k].locs |->
                             [field |-> IF os[k].locs[j].field = "" THEN fi.name
                                        ELSE os[k].locs[j].field,
                              pos   |-> os[k].locs[j].pos,
                              start |-> os[k].locs[j].start,
                              end   |-> os[k].locs[j].end]]]]
    IN Flatten([i \in DOMAIN is |-> perInst(is[i])])

HasTerm(doc, f, t) ==
    \E i \in DOMAIN doc.insts : doc.insts[i].name = f /\
        \E k \in DOMAIN doc.insts[i].terms : doc.insts[i].terms[k].term = t

TermsOfDoc(doc, f) ==
    UNION {{doc.insts[i].terms[k].term : k \in DOMAIN doc.insts[i].terms}
            : i \in {j \in DOMAIN doc.insts : doc.insts[j].name = f}}

\* the posting of document number n (0-based) for (f, t); only called when HasTerm
PostingOf(c, n, f, t) ==
    LET doc == c.docs[n + 1]
        os  == OccsOf(doc, f, t)
    IN [doc  |-> n,
        freq |-> SumSeq([k \in DOMAIN os |-> os[k].freq]),
        norm |-> NormAt(f, TotalLen(doc, f)),
        locs |-> Flatten([k \in DOMAIN os |-> os[k].locs])]

DocsWith(c, f, t) == {n \in 0..(Len(c.docs) - 1) : HasTerm(c.docs[n + 1], f, t)}

DocNumbers(c) == [i \in 1..Len(c.docs) |-> i - 1]

\* the full postings list of (f, t): ascending document order (linear in the number of documents)
Postings(c, f, t) ==
    LET ds == SelectSeq(DocNumbers(c), LAMBDA n : HasTerm(c.docs[n + 1], f, t)) IN
    Force([i \in DOMAIN ds |-> PostingOf(c, ds[i], f, t)])

-----------------------------------------------------------------------------
(* Read semantics *)

Count(c) == Len(c.docs)

KnownField(c, f) == f \in RangeOf(c.fields)

TermSet(c, f) == UNION {TermsOfDoc(c.docs[d], f) : d \in DOMAIN c.docs}

TermCount(c, f, t) == Cardinality(DocsWith(c, f, t))

\* automata are abstract predicates on terms
AutAccepts(aut, t) ==
    CASE aut.kind = "all"    -> TRUE
      [] aut.kind = "prefix" -> IsPrefixOf(aut.p, t)
      [] aut.kind = "oneof"  -> t \in RangeOf(aut.terms)
      [] aut.kind = "none"   -> FALSE

\* bounds are [kind |-> "nil"] or [kind |-> "key", key |-> bytes]
InRange(t, lo, hi) ==
    /\ (lo.kind = "nil" \/ LexLeq(lo.key, t))
    /\ (hi.kind = "nil" \/ LexLess(t, hi.key))

\* dictionary enumeration: live terms in ascending byte order with true counts
DictRange(c, f, lo, hi, aut) ==
    LET ts == SetToSorted({t \in TermSet(c, f) : InRange(t, lo, hi) /\ AutAccepts(aut, t)}, LexLess)
    IN [i \in DOMAIN ts |-> [term |-> ts[i], count |-> TermCount(c, f, ts[i])]]

\* postings iteration: first posting after `last` at or after d that is in `actual`
IterAdvance(list, actual, last, d) ==
    LET cand == {i \in DOMAIN list :
                    list[i].doc \in actual /\ list[i].doc > last /\ list[i].doc >= d}
    IN IF cand = {} THEN [kind |-> "end"]
       ELSE LET i == CHOOSE i \in cand : \A j \in cand : i <= j
            IN [kind |-> "hit", p |-> list[i]]

\* the same, as a scan from a cursor: the first index > i whose posting is in `actual` and >= d
\* (0 = none).  Lists are ascending, so "after the last returned one" is "after its index".
ScanFrom(list, actual, i, d) ==
    IF i > Len(list) THEN 0
    ELSE SelectInSubSeq(list, i, Len(list), LAMBDA p : p.doc \in actual /\ p.doc >= d)

ListDocs(list) == {list[i].doc : i \in DOMAIN list}

\* stored fields of document n: field-list order, then input order
StoredOf(c, n) ==
    IF n >= Len(c.docs) THEN <<>>
    ELSE LET doc == c.docs[n + 1]
             st  == SelectSeq(doc.insts, LAMBDA fi : fi.stored)
             fs  == SetToSorted({st[i].name : i \in DOMAIN st}, FieldLess)
             of(f) == LET g == SelectSeq(st, LAMBDA fi : fi.name = f)
                      IN [i \in DOMAIN g |-> [field |-> f, value |-> g[i].value]]
         IN Flatten([k \in DOMAIN fs |-> of(fs[k])])

\* doc values of document n for the requested fields (request order, terms ascending)
DocValuesOf(c, n, fields) ==
    LET doc == c.docs[n + 1]
        of(f) == IF KnownField(c, f) /\ f \in doc.dv
                 THEN LET ts == SetToSorted(TermsOfDoc(doc, f), LexLess)
                      IN [i \in DOMAIN ts |-> [field |-> f, term |-> ts[i]]]
                 ELSE <<>>
    IN Flatten([k \in DOMAIN fields |-> of(fields[k])])

\* DocsMatchingTerms: union over (field, term) pairs
Matching(c, pairs) ==
    UNION {DocsWith(c, pairs[k].field, pairs[k].term) : k \in DOMAIN pairs}

\* collection statistics
DocFreqSum(doc, f) ==
    LET is == InstsOf(doc, f) IN
    SumSeq([i \in DOMAIN is |-> SumSeq([k \in DOMAIN is[i].terms |-> is[i].terms[k].freq])])

\* SumTotalTermFrequency is a 64-bit counter; TLC integers are 32 bit, so the sum is kept in two base-2^20 digits
BigBase == 1048576
BigZero == [hi |-> 0, lo |-> 0]
BigAddInt(a, n) == LET lo == a.lo + (n % BigBase) IN [hi |-> a.hi + (n \div BigBase) + (lo \div BigBase), lo |-> lo % BigBase]
BigAdd(a, b) == LET lo == a.lo + b.lo IN [hi |-> a.hi + b.hi + (lo \div BigBase), lo |-> lo % BigBase]
ToBig(n) == BigAddInt(BigZero, n)

Stats(c, f) ==
    IF ~KnownField(c, f) THEN [total |-> 0, docs |-> 0, sumttf |-> BigZero]
    ELSE [total  |-> Len(c.docs),
          docs   |-> IF c.origin = "built"
                     THEN Cardinality({d \in DOMAIN c.docs : InstsOf(c.docs[d], f) # <<>>})
                     ELSE Cardinality({d \in DOMAIN c.docs : TermsOfDoc(c.docs[d], f) # {}}),
          sumttf |-> FoldLeft(LAMBDA acc, doc : BigAddInt(acc, DocFreqSum(doc, f)), BigZero, c.docs)]

StatsAdd(a, b) == [total |-> a.total + b.total, docs |-> a.docs + b.docs,
                   sumttf |-> BigAdd(a.sumttf, b.sumttf)]

ContentLenIsSumFreq(c) ==
    \A d \in DOMAIN c.docs : \A i \in DOMAIN c.docs[d].insts :
        LET fi == c.docs[d].insts[i] IN
        fi.len = SumSeq([k \in DOMAIN fi.terms |-> fi.terms[k].freq])

-----------------------------------------------------------------------------
(* Merge *)

\* drops[i] is a set of document numbers of contents[i]
ValidDrops(contents, drops) ==
    /\ Len(drops) = Len(contents)
    /\ \A i \in DOMAIN contents : drops[i] \subseteq 0..(Len(contents[i].docs) - 1)

SurvivorsOf(c, drop) ==
    FoldLeft(LAMBDA acc, n : IF n \in drop THEN acc ELSE Append(acc, c.docs[n + 1]), <<>>, DocNumbers(c))

NumSurvivors(c, drop) == Len(c.docs) - Cardinality(drop)

RECURSIVE BaseOf(_, _, _)
BaseOf(contents, drops, i) ==          \* new number of the first survivor of segment i
    IF i = 1 THEN 0 ELSE BaseOf(contents, drops, i - 1) + NumSurvivors(contents[i - 1], drops[i - 1])

\* C03: one sequence per input; Dropped for deleted documents, else consecutive numbers
\* (one pass over the document numbers, so that segments with thousands of deletions stay cheap)
DocNumMap(contents, drops) ==
    Force([i \in DOMAIN contents |->
        FoldLeft(LAMBDA acc, n : IF n \in drops[i]
                                 THEN [next |-> acc.next, seq |-> Append(acc.seq, Dropped)]
                                 ELSE [next |-> acc.next + 1, seq |-> Append(acc.seq, acc.next)],
                 [next |-> BaseOf(contents, drops, i), seq |-> <<>>],
                 DocNumbers(contents[i])).seq])

Merge(contents, drops) ==
    [docs   |-> Flatten([i \in DOMAIN contents |-> SurvivorsOf(contents[i], drops[i])]),
     fields |-> FieldList(UNION {RangeOf(contents[i].fields) : i \in DOMAIN contents}),
     origin |-> "merged"]

\* two contents that every read API except the C16 origin clause must not distinguish
SameDocs(c1, c2) == c1.docs = c2.docs /\ c1.fields = c2.fields

\* translation of a drop set through a document-number map (C17)
TranslateDrops(map, drops) ==
    UNION {{map[i][n + 1] : n \in {m \in drops[i] : map[i][m + 1] # Dropped}} : i \in DOMAIN map}

=============================================================================
