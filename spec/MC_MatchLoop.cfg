SPECIFICATION Spec
CONSTANTS
    Known = {"a", "b"}
    Unknown = "u"
    Terms = {"x", "y", "z"}
    Index <- McIndex
    MaxTerms = 3
    Dev = {}
INVARIANTS NoCrash ExactUnion
CHECK_DEADLOCK FALSE
