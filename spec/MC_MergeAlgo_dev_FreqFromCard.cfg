SPECIFICATION Spec
CONSTANTS
    Catalogue <- McCatalogue
    MaxSegs = 2
    Dev = {"FreqFromCard"}
    FieldBytes <- McFieldBytes
    NormOf <- McNormOf
INVARIANT AllRefine
CHECK_DEADLOCK FALSE
