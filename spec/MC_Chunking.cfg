SPECIFICATION Spec
CONSTANTS
    MaxDocs = 3100
    Cards = {1, 2, 1023, 1024, 1025, 2047, 2048, 2049, 3071, 3072}
    Modes = {1, 2, 3, 5, 1024, 1025}
    Dev = {}
INVARIANTS BuilderAgrees MergerAgrees Positive InAllocatedChunk
CHECK_DEADLOCK FALSE
