SPECIFICATION Spec
CONSTANTS
    MaxDocs = 8
    BS = 3
    ReaderBS = 3
    Dev = {"HoistedBlockStart"}
INVARIANTS BuiltReadsBack TableShape MergedReadsBack
CHECK_DEADLOCK FALSE
