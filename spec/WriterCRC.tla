------------------------------ MODULE WriterCRC ------------------------------
(***************************************************************************)
(* Level I: how bytes and their CRC reach the caller's writer              *)
(* (count.go, write.go persistFooter, segment.go WriteTo, merge.go         *)
(* Merger.WriteTo, bufio.Writer) - C11 and C12.                            *)
(*                                                                         *)
(* Part 1 - the CRC chain.  Bytes are abstract tokens; a CRC value is      *)
(* represented by THE SEQUENCE IT COVERS, so "the stored CRC covers every  *)
(* preceding byte" is an equation between sequences.  The builder and the  *)
(* merger hash the data section and seed the footer writer with it; the    *)
(* footer writer continues over the footer fields and appends the result.  *)
(* A loaded segment's footer.crc is the CRC of the WHOLE file, so          *)
(* re-persisting it must not seed from footer.crc (deviation               *)
(* "SeedFromFooter" = the pinned behaviour); the repaired design hashes    *)
(* the data section again while writing it.                                *)
(*                                                                         *)
(* Part 2 - faults.  A producer performs a list of writes through          *)
(* countHashWriter -> bufio.Writer(size B) -> the caller's writer, which   *)
(* fails from byte K on, or closes the close channel once C bytes arrived. *)
(* bufio's error is sticky and Merger.WriteTo/Segment.WriteTo return the   *)
(* error of the final Flush.  Invariants: success is only reported when    *)
(* every byte was delivered; a closed channel yields ErrClosed or the      *)
(* complete file.  Deviation "DropFlushErr" ignores the Flush result;      *)
(* "PollAfterDataNil" adds a poll that returns nil after data was written. *)
(***************************************************************************)
EXTENDS Integers, Sequences, FiniteSets, TLC

CONSTANTS MaxSteps,      \* length of Build/Merge/Persist/Load chains
          Dev

-----------------------------------------------------------------------------
(* Part 1: CRC chain *)

VARIABLES segs, files, steps
crcVars == <<segs, files, steps>>

F == <<"numDocs", "stored", "fields", "dv", "chunk", "version">>     \* the footer fields before the CRC

CrcInit == segs = <<>> /\ files = <<>> /\ steps = 0

\* persistFooter(footer, w): continue the running CRC from `seed` over the footer fields
FooterOf(seed) == [fields |-> F, crc |-> seed \o F]

BuildSeg ==
    /\ steps < MaxSteps
    /\ LET d == <<<<"D", steps>>>> IN
       segs' = Append(segs, [data |-> d, fcrc |-> d, src |-> "built", from |-> 0])
    /\ steps' = steps + 1 /\ UNCHANGED files

MergeFile ==          \* Merger.WriteTo writes data, then the footer seeded with the data CRC
    /\ steps < MaxSteps /\ segs # <<>>
    /\ LET d == <<<<"M", steps>>>> IN
       files' = Append(files, [data |-> d, footer |-> FooterOf(d), from |-> 0])
    /\ steps' = steps + 1 /\ UNCHANGED segs

PersistSeg(i) ==      \* Segment.WriteTo
    /\ steps < MaxSteps
    /\ LET s == segs[i]
           seed == IF "SeedFromFooter" \in Dev THEN s.fcrc ELSE s.data     \* repaired: hash the data while writing
       IN files' = Append(files, [data |-> s.data, footer |-> FooterOf(seed), from |-> s.from])
    /\ steps' = steps + 1 /\ UNCHANGED segs

LoadFile(j) ==        \* load(): footer.crc := the CRC stored in the file
    /\ steps < MaxSteps
    /\ segs' = Append(segs, [data |-> files[j].data, fcrc |-> files[j].footer.crc, src |-> "loaded", from |-> j])
    /\ steps' = steps + 1 /\ UNCHANGED files

CrcNext == BuildSeg \/ MergeFile \/ (\E i \in DOMAIN segs : PersistSeg(i)) \/ (\E j \in DOMAIN files : LoadFile(j))
CrcSpec == CrcInit /\ [][CrcNext]_crcVars

\* C11: the stored CRC covers exactly the bytes that precede it
CrcCoversFile == \A j \in DOMAIN files : files[j].footer.crc = files[j].data \o files[j].footer.fields
\* C11: persisting a loaded segment reproduces the file it was loaded from
RePersistIdentity == \A j \in DOMAIN files : files[j].from # 0 => files[j] = [files[files[j].from] EXCEPT !.from = files[j].from]

=============================================================================
